#!/bin/bash
# run every quick (or $1) check once and print one summary line each
tier=${1:-quick}
cd /verif
for i in 01 02 03 04 05 06 07 08 09 10 11 12 13 14 15 16 17 18 19 20; do
  s=$(date +%s)
  out=$(./check C$i --tier $tier 2>&1)
  code=$?
  e=$(date +%s)
  echo "C$i exit=$code $((e-s))s $(echo "$out" | grep -E '^\[C' | head -1 | cut -c1-120) $(echo "$out" | grep -c '^VIOLATION') viol $(echo "$out" | grep -c '^KNOWN-FINDING') known $(echo "$out" | grep -E '^INCONCLUSIVE' | head -2 | tr '\n' ' ')"
done
