#!/bin/bash
# usage: lib/confirm_seed.sh <id>   (worktree /tmp/wt/<id>, outputs /tmp/wt/out-<id>)
# confirms: suite passes with the patch (113), demo fails with it, demo passes without it.
id=$1; wt=/tmp/wt/$id; out=/tmp/wt/out-$id
export CARGO_NET_OFFLINE=true
cd $wt || exit 2
git checkout -q -- . ; git clean -fdq -e target
git apply $out/patch.diff || { echo "patch does not apply"; exit 2; }
suite=$(cargo nextest run --workspace --no-fail-fast --offline 2>&1 | grep -E 'Summary' | tail -1)
echo "suite with patch: $suite"
# place the demo
name=seeded_demo
if [ -f $out/demo.py ]; then echo "python demo: confirm by hand"; exit 0; fi
loc=$(python3 -c "import json;print(json.load(open('$out/meta.json')).get('demo_location',''))" 2>/dev/null)
if grep -q "compact_calendar" $out/demo.rs && ! grep -q "crate::" $out/demo.rs; then
  mkdir -p compact-calendar/tests; cp $out/demo.rs compact-calendar/tests/seeded_demo.rs; filter="-p compact-calendar --test seeded_demo"; name=""
elif echo "$loc" | grep -q "opening-hours-syntax"; then
  cp $out/demo.rs opening-hours-syntax/src/tests/seeded_demo.rs; grep -q seeded_demo opening-hours-syntax/src/tests/mod.rs || echo "mod seeded_demo;" >> opening-hours-syntax/src/tests/mod.rs; filter="-p opening-hours-syntax"
elif echo "$loc" | grep -q "opening-hours-py"; then
  cp $out/demo.rs opening-hours-py/src/tests/seeded_demo.rs; grep -q seeded_demo opening-hours-py/src/tests/mod.rs || echo "mod seeded_demo;" >> opening-hours-py/src/tests/mod.rs; filter="-p opening-hours-py"
elif echo "$loc" | grep -qE "^opening-hours/tests|/tests/seeded_demo.rs" && ! echo "$loc" | grep -q "src/tests"; then
  mkdir -p tests; cp $out/demo.rs tests/seeded_demo.rs; filter="-p opening-hours --test seeded_demo"; name=""
else
  cp $out/demo.rs opening-hours/src/tests/seeded_demo.rs; grep -q seeded_demo opening-hours/src/tests/mod.rs || echo "mod seeded_demo;" >> opening-hours/src/tests/mod.rs; filter="-p opening-hours"
fi
w=$(cargo nextest run $filter --offline --no-fail-fast $name 2>&1 | grep -E 'Summary|error(\[|:)' | tail -2 | tr '\n' ' ')
echo "demo with patch: $w"
git apply -R $out/patch.diff
wo=$(cargo nextest run $filter --offline --no-fail-fast $name 2>&1 | grep -E 'Summary|error(\[|:)' | tail -2 | tr '\n' ' ')
echo "demo without patch: $wo"
git checkout -q -- . ; git clean -fdq -e target
