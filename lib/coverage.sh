#!/bin/bash
# Supporting information only (never decides a verdict): line/region coverage of /repo's library
# sources by the quick workloads of the Rust monitors.
#   lib/coverage.sh [shards...]      default shards: 0 5 11 (of 16)
# Builds the worker with -Cinstrument-coverage on the nightly toolchain (its llvm-tools match) into
# /verif/target-cov, runs the listed shards of every monitor's quick tier, merges the profiles and
# prints a per-file table plus the uncovered source lines. C12 (CPython driver) and C18 (process
# orchestration from lib/c18.py) are not included, so the figures are a lower bound.
set -e
cd "$(dirname "$0")/.."
VERIF=$(pwd)
BIN=$(rustc +nightly --print sysroot)/lib/rustlib/x86_64-unknown-linux-gnu/bin
shards=${@:-0 5 11}
out=$VERIF/work/cov; rm -rf $out; mkdir -p $out
# (build scripts and proc macros are instrumented too: keep their profiles out of /repo)
(cd harness && LLVM_PROFILE_FILE=$out/build-%p-%m.profraw.tmp CARGO_NET_OFFLINE=true RUSTFLAGS="--cfg oh_verif -Cinstrument-coverage" cargo +nightly build --offline --release --target-dir $VERIF/target-cov 2>&1 | tail -1)
rm -f $out/*.tmp
for p in 01 02 03 04 05 06 07 08 09 10 11 13 14 15 16 17 19 20; do
  for w in $shards; do
    LLVM_PROFILE_FILE=$out/C$p-$w.profraw $VERIF/target-cov/release/ohv C$p --seed ${VERIF_SEED:-1} --worker $w --of 16 --tier quick \
      --out $out/C$p-$w.json --known commentless_closed_before_midnight_span >/dev/null 2>&1 &
  done
done
wait
$BIN/llvm-profdata merge -sparse $out/*.profraw -o $out/all.profdata
$BIN/llvm-cov report $VERIF/target-cov/release/ohv -instr-profile=$out/all.profdata --ignore-filename-regex='(\.cargo|rustc|/verif/|rustlib)' 2>/dev/null | python3 -c "
import sys
for l in sys.stdin:
    f = l.split()
    if (len(f) >= 13 and f[0].endswith('.rs')) or (f and f[0] == 'TOTAL'):
        print('%-58s regions %5s missed %4s %8s | lines %5s missed %4s %8s' % (f[0][-58:], f[1], f[2], f[3], f[7], f[8], f[9]))
" | tee $out/summary.txt
echo "--- uncovered lines (closing braces omitted)"
$BIN/llvm-cov show $VERIF/target-cov/release/ohv -instr-profile=$out/all.profdata --ignore-filename-regex='(\.cargo|rustc|/verif/|verif_hooks|rustlib)' 2>/dev/null | python3 -c "
import sys, re
cur = None
for l in sys.stdin:
    if l.startswith('/repo') and l.rstrip().endswith(':'):
        cur = l.strip(); continue
    m = re.match(r'\s*(\d+)\|\s*0\|(.*)', l)
    if m and m.group(2).strip() not in ('}', ''):
        print(cur[-48:], m.group(1), m.group(2)[:110])
" | tee $out/uncovered.txt | head -200
rm -f $out/*.profraw
