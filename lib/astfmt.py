import sys,re
for l in sys.stdin:
    l=l.rstrip()
    if l.startswith('  ast:'):
        a=l
        a=re.sub(r'nth_from_start: \[true, true, true, true, true\], nth_from_end: \[true, true, true, true, true\]','nth*',a)
        a=a.replace('OpeningHoursExpression { rules: ','').replace('TimeSpan { range: Fixed(00:00)..Fixed(24:00), open_end: false, repeats: None }','FULL').replace('day_selector: DaySelector','DS').replace('time_selector: TimeSelector','TS').replace('UniqueSortedVec','').replace('wday_offset: None, day_offset: 0','off0').replace('RuleSequence','R').replace('DS { year: [], monthday: [], week: [], weekday: [] }','DS{}').replace('TS { time: [FULL] }','TS{FULL}').replace('open_end: false, repeats: None','-')
        print(a[:700])
    elif l.startswith('  normal'): pass
    else: print(l[:200])
