"""C04: second pass with the plain release profile (no debug assertions / overflow checks: a
verdict can flip between the two), and in thorough the libFuzzer + ASan target."""
import json, os, re, shutil, subprocess, time


def special(ctx, merged):
    log = ctx["log"]
    binary = ctx["build_harness"]("plain")
    reports, aborted, timed_out = ctx["run_workers"](binary, "C04", ctx["tier"], ctx["seed"] + 1, ctx["workers"], ctx["triggers"], ctx["scale"] * 0.5, tag="plain")
    m = ctx["merge"](reports)
    ctx["violations"] += [dict(v, message="[plain release build] " + v["message"]) for v in m["violations"]]
    for a in aborted:
        ctx["violations"].append({"kind": "abort", "message": f"[plain release build] worker {a['worker']} died (exit {a['exit']}): stack overflow / allocation failure / abort while running {a['case_in_flight'][:300]}", "case": {"case_in_flight": a["case_in_flight"]}, "known": None})
    for w in timed_out:
        ctx["inconclusive"].append(f"plain-build worker {w} hit the wall-clock watchdog")
    ctx["extra_coverage"]["plain_build_pass"] = {"evaluations": m["evaluations"], "strings_parsed_and_evaluated": m["counters"].get("strings_parsed_and_evaluated", 0), "strings_rejected": m["counters"].get("strings_rejected", 0)}
    if ctx["tier"] == "thorough":
        fuzz(ctx)


def fuzz(ctx):
    """cargo-fuzz target (libFuzzer + ASan) running the same monitor on mutated byte strings.
    Exit codes of the fuzzer are never trusted: artifacts are triaged through the monitor."""
    log = ctx["log"]
    fdir = os.path.join(ctx["HARNESS"], "fuzz")
    env = ctx["cargo_env"]()
    env["RUSTUP_TOOLCHAIN"] = "nightly"
    art = os.path.join(fdir, "artifacts", "c04")
    shutil.rmtree(art, ignore_errors=True)
    os.makedirs(art, exist_ok=True)
    corpus = os.path.join(fdir, "corpus", "c04")
    os.makedirs(corpus, exist_ok=True)
    # seed corpus: the suite's sample lines
    sample = os.path.join(ctx["REPO"], "opening-hours", "src", "tests", "data", "sample.txt")
    if os.path.exists(sample):
        for i, line in enumerate(open(sample).read().splitlines()[:200]):
            open(os.path.join(corpus, f"sample{i}"), "w").write(line)
    secs = int(480 * ctx["scale"]) or 30
    t0 = time.time()
    cmd = ["cargo", "fuzz", "run", "c04", "--target-dir", ctx["TARGET"] + "-fuzz", "--", f"-max_total_time={secs}", "-timeout=10", "-fork=16", "-ignore_crashes=1", "-ignore_timeouts=1", "-ignore_ooms=1", f"-seed={ctx['seed'] % 2**31}", f"-dict={os.path.join(fdir, 'oh.dict')}", f"-artifact_prefix={art}/", "-max_len=200", corpus]
    try:
        p = subprocess.run(cmd, cwd=ctx["HARNESS"], env=env, stdout=subprocess.PIPE, stderr=subprocess.STDOUT, text=True, timeout=secs + 1800)
    except subprocess.TimeoutExpired:
        ctx["inconclusive"].append("cargo fuzz hit the watchdog")
        return
    execs = [int(x) for x in re.findall(r"#(\d+):? ", p.stdout)]
    cov = {"seconds": secs, "wall_s": round(time.time() - t0, 1), "executions_reported": max(execs) if execs else 0, "artifacts": len(os.listdir(art))}
    ctx["extra_coverage"]["libfuzzer_asan"] = cov
    if "error: could not compile" in p.stdout or (not execs and p.returncode != 0):
        ctx["inconclusive"].append("cargo fuzz did not run: " + p.stdout[-800:])
        return
    # triage: every artifact is replayed through the monitor (checked build)
    for name in sorted(os.listdir(art))[:50]:
        data = open(os.path.join(art, name), "rb").read()
        text = data.decode("utf-8", errors="replace")
        case = os.path.join(ctx["WORK"], "C04", f"artifact-{name}.json")
        os.makedirs(os.path.dirname(case), exist_ok=True)
        json.dump({"case": {"expr": text, "seed": 1, "worker": 0, "index": 0}}, open(case, "w"))
        out = case + ".out"
        q = subprocess.run([ctx["binary"], "C04", "--replay", case, "--out", out], stdout=subprocess.PIPE, stderr=subprocess.STDOUT, text=True)
        if os.path.exists(out):
            r = json.load(open(out))
            for v in r["violations"]:
                ctx["violations"].append(dict(v, message="[libFuzzer artifact " + name + "] " + v["message"]))
            if not r["violations"]:
                cov.setdefault("artifacts_not_reproduced_by_monitor", 0)
                cov["artifacts_not_reproduced_by_monitor"] += 1
        else:
            ctx["violations"].append({"kind": "abort", "message": f"[libFuzzer artifact {name}] the monitor process died replaying {text[:200]!r}: {q.stdout[-300:]}", "case": {"expr": text}, "known": None})
