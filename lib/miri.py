"""Thorough-tier supporting pass: a reduced workload of a self-contained data-structure monitor
under Miri (undefined behaviour, overflow in bit operations, leaks)."""
import json, os, subprocess, time


def make(prop, extras, fuzz_target=None):
    def special(ctx, merged):
        if ctx["tier"] != "thorough":
            return
        env = ctx["cargo_env"]()
        env["RUSTUP_TOOLCHAIN"] = "nightly"
        env["MIRIFLAGS"] = "-Zmiri-disable-isolation"
        t0 = time.time()
        cmd = ["cargo", "miri", "run", "--offline", "--target-dir", ctx["TARGET"] + "-miri", "--", prop, "--seed", str(ctx["seed"]), "--tier", "quick"]
        for e in extras:
            cmd += ["--extra", e]
        try:
            p = subprocess.run(cmd, cwd=ctx["HARNESS"], env=env, stdout=subprocess.PIPE, stderr=subprocess.PIPE, text=True, timeout=3 * 3600)
        except subprocess.TimeoutExpired:
            ctx["inconclusive"].append("Miri pass hit the watchdog")
            return
        rep = None
        for line in p.stdout.splitlines():
            if line.startswith("{"):
                try:
                    rep = json.loads(line)
                except ValueError:
                    pass
        cov = {"wall_s": round(time.time() - t0, 1), "exit": p.returncode}
        if "Undefined Behavior" in p.stderr or "error: memory leaked" in p.stderr:
            ctx["violations"].append({"kind": "miri_report", "message": "Miri reported undefined behaviour / a leak:\n" + p.stderr[-3000:], "case": {}, "known": None})
        elif rep is None:
            ctx["inconclusive"].append("Miri pass produced no report: " + p.stderr[-600:])
        else:
            cov["evaluations"] = rep["evaluations"]
            ctx["violations"] += [dict(v, message="[under Miri] " + v["message"]) for v in rep["violations"]]
        ctx["extra_coverage"]["miri_pass"] = cov
        if fuzz_target:
            fuzz(ctx, fuzz_target)
    return special


def fuzz(ctx, target):
    import re, shutil
    fdir = os.path.join(ctx["HARNESS"], "fuzz")
    env = ctx["cargo_env"]()
    env["RUSTUP_TOOLCHAIN"] = "nightly"
    art = os.path.join(fdir, "artifacts", target)
    shutil.rmtree(art, ignore_errors=True)
    os.makedirs(art, exist_ok=True)
    corpus = os.path.join(fdir, "corpus", target)
    os.makedirs(corpus, exist_ok=True)
    secs = int(180 * ctx["scale"]) or 20
    cmd = ["cargo", "fuzz", "run", target, "--target-dir", ctx["TARGET"] + "-fuzz", "--", f"-max_total_time={secs}", "-timeout=10", "-fork=16", "-ignore_crashes=1", f"-seed={ctx['seed'] % 2**31}", f"-artifact_prefix={art}/", "-max_len=256", corpus]
    try:
        p = subprocess.run(cmd, cwd=ctx["HARNESS"], env=env, stdout=subprocess.PIPE, stderr=subprocess.STDOUT, text=True, timeout=secs + 1800)
    except subprocess.TimeoutExpired:
        ctx["inconclusive"].append("cargo fuzz hit the watchdog")
        return
    execs = [int(x) for x in re.findall(r"#(\d+):? ", p.stdout)]
    arts = sorted(os.listdir(art))
    ctx["extra_coverage"]["libfuzzer_asan"] = {"seconds": secs, "executions_reported": max(execs) if execs else 0, "artifacts": len(arts)}
    if not execs:
        ctx["inconclusive"].append("cargo fuzz did not run: " + p.stdout[-600:])
    for name in arts[:5]:
        msg = re.findall(r"C\d+ VIOLATION: (.*)", p.stdout)
        ctx["violations"].append({"kind": "fuzz_artifact", "message": f"libFuzzer artifact {name}: " + (msg[0] if msg else "crash (see artifact)"), "case": {"artifact": os.path.join(art, name)}, "known": None})
