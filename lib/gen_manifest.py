#!/usr/bin/env python3
"""Writes /verif/MANIFEST.json from the table below (kept next to the per-property descriptions)."""
import json, os, sys
sys.path.insert(0, os.path.dirname(os.path.abspath(__file__)))
import props

VERIF = os.path.dirname(os.path.dirname(os.path.abspath(__file__)))
ALL = [f"C{i:02d}" for i in range(1, 21)]

checks = []
for pid in ALL:
    d = props.PROPS.get(pid)
    if not d or d.get("disabled"):
        continue
    checks.append({
        "property_id": pid,
        "quick_cmd": f"./check {pid} --tier quick",
        "thorough_cmd": f"./check {pid} --tier thorough",
        "evidence_file": f"/verif/evidence/{pid}.json",
        "replay_cmd_template": f"./check {pid} --replay {{path}}",
        "engine": "ohv",
        "level_claimed": {"category": d.get("level", "exploration"), "text": d["level_text"], "design_ref": d.get("design_ref", f"DESIGN.md section 6, {pid}")},
        "level_note": "; ".join(d["assumptions"]),
        "technique": d["technique"],
    })
not_applicable = [{"property_id": pid, "reason": props.NOT_CLAIMED.get(pid, "monitor not built yet in this round; no claim is made")} for pid in ALL if pid not in [c["property_id"] for c in checks]]

manifest = {
    "version": 1,
    "setup_cmd": "cd /verif/harness && CARGO_NET_OFFLINE=true RUSTFLAGS='--cfg oh_verif' cargo build --offline --release --target-dir /verif/target",
    "hooks": {
        "guard": "--cfg oh_verif",
        "enable": "RUSTFLAGS='--cfg oh_verif' cargo build (set by ./check for every build of the harness, which path-depends on /repo)",
        "baseline_off_cmd": "cd /repo && cargo nextest run --workspace --no-fail-fast --offline",
        "source_commits": props.HOOK_COMMITS,
        "add_only": True,
    },
    "engines": [
        {"name": "ohv", "path": "/verif/harness", "serves_properties": [c["property_id"] for c in checks],
         "kind_free_text": "Rust worker binary (generators, reference model, monitors, shrinker) driven by the Python orchestrator /verif/check: 16 worker processes, merged reports, known-finding handling, evidence"},
    ],
    "checks": checks,
    "not_applicable": not_applicable,
    "notes": "Technique family: runtime monitoring and sanitizers. Exit 0 = held on everything observed, 1 = VIOLATION line(s), 2 = build error or inconclusive (never a verdict). Known findings: /verif/known_findings.json.",
}
with open(os.path.join(VERIF, "MANIFEST.json"), "w") as f:
    json.dump(manifest, f, indent=1)
print("wrote MANIFEST.json with", len(checks), "checks;", len(not_applicable), "not claimed")
