#!/bin/bash
# usage: lib/seedtest.sh <patch.diff> <Cxx> [<Cxx> ...]
# applies a seeded change to /repo's working tree, runs the quick checks named, reverts.
patch=$1; shift
cd /verif
if ! git -C /repo diff --quiet; then echo "/repo working tree not clean"; exit 2; fi
git -C /repo apply "$patch" || { echo "patch does not apply"; exit 2; }
for p in "$@"; do
  s=$(date +%s)
  out=$(./check $p --tier ${TIER:-quick} 2>&1)
  code=$?
  e=$(date +%s)
  echo "== $p exit=$code $((e-s))s viol=$(echo "$out" | grep -c '^VIOLATION')"
  echo "$out" | grep -vE '^(VIOLATION|KNOWN-FINDING|note:|\[build\])' | cut -c1-500 | head -${LINES_SHOWN:-4}
done
git -C /repo checkout -- .
git -C /repo status --short | head -3
