"""Per-property descriptions used by /verif/check: how cases are generated, what is trusted,
and property-specific extra steps (other build variants, other processes)."""

import miri as _miri

PROPS = {}
NOT_CLAIMED = {}
HOOK_COMMITS = ["df4b594", "648b1ab"]

PROPS["C19"] = {
    "special": _miri.make("C19", ["stride=400"]),
    "technique": 'exhaustive enumeration of the whole input space, results compared with integer arithmetic',
    "level_text": "The type's whole input space is finite and is enumerated completely on every run against plain integer arithmetic; any deviation of any public method on any input is observed.",
    "exhaustive": True,
    "rule": "exhaustive enumeration: all 65536 (hour, minute) pairs for new(); all u16 for from_mins_from_midnight(); "
            "all 2881x2881 pairs of valid times for ordering; every valid time x every i16 for add_minutes and x every i8 "
            "for add_hours, against integer arithmetic; Display, TryInto<NaiveTime>, From<NaiveTime>. evaluations counts "
            "individual comparisons; distinct_nontrivial counts the distinct valid receivers/inputs enumerated "
            "(a case is non-trivial when the constructor accepts it).",
    "assumptions": ["chrono::NaiveTime field accessors", "Rust integer arithmetic as the model"],
}

PROPS["C20"] = {
    "special": _miri.make("C20", ["len=3", "norandom"]),
    "technique": 'exhaustive small-scope enumeration + random differential testing against BTreeSet',
    "level_text": 'Every pair of vectors over a 4-letter alphabet up to length 5 (quick) / 6 (thorough) is run through every public operation and compared with BTreeSet, plus random long operands; exploration, complete within the stated scope.',
    "exhaustive": ("thorough",),
    "rule": "exhaustive enumeration of all ordered pairs of vectors over {0,1,2,3} up to length 5 (quick) / 6 (thorough): "
            "From<Vec>, union, contains, find_first_following compared with BTreeSet; plus seeded random longer vectors "
            "(<= 2000 elements) and Arc<str> elements; plus a SIZE LADDER: 8 operand shapes (interleaved with shared values, long + tiny, equal, strict prefix, nested, random with duplicates) x lengths 0..70, then 2^k-1, 2^k, 2^k+1, 3*2^(k-1) up to 2^18 elements (ladder_pairs = 952, ladder_max_operand_length = 393216; under Miri up to 2^9). A pair is non-trivial when neither operand is empty; distinct = "
            "enumerated pairs (distinct by construction) + distinct random pairs by hash.",
    "assumptions": ["std::collections::BTreeSet as the model of a sorted set"],
}

PROPS["C14"] = {
    "technique": 'exhaustive grid enumeration + random operation sequences against a painted minute array; invariant read on the live structure through a hook',
    "level_text": 'All from_ranges/addition calls over a 5-point grid (including empty, inverted, nested, adjacent ranges) plus random minute-granular operation sequences are compared minute by minute with a last-writer-wins array; structural invariants are asserted on the live Schedule. Exploration, complete within the grid scope.',
    "rule": "exhaustive over the 5-point grid {00:00,06:00,09:30,14:00,24:00} (all 25 end-point pairs incl. empty and inverted): "
            "every from_ranges call with <= 3 ranges x 3 kinds, every a.addition(b) with a,b from <= 2 ranges x 3x3 kinds "
            "(thorough: three-operand additions over the 10 proper ranges); a SIZE LADDER of 552 sequences with K = 1..64, 96, 128, 200, 360, 720 ranges in one from_ranges call (disjoint, touching, staggered overlaps in shuffled order) and K successive additions (nested with alternating kinds, pairs of ranges, many-range operand then whole-day operand and the reverse); seeded random sequences of <= 8 operations with "
            "<= 6 minute-granular ranges each; generated schedule! invocations. Oracle: a 1440-entry array painted in the same "
            "order; structure read from the live Schedule through hook verif_ranges(); iteration checked as a tiling. "
            "Non-trivial = at least two non-empty ranges involved; distinct by construction (enumeration) or by hash (random).",
    "assumptions": ["ExtendedTime arithmetic (decided separately by C19)"],
}

PROPS["C15"] = {
    "special": _miri.make("C15", ["reduced"], fuzz_target="c15"),
    "technique": 'random insertion histories compared operation-by-operation with a BTreeSet reference model',
    "level_text": 'Tens of thousands of seeded insertion histories (thorough: millions) with hostile year layouts are checked against a sorted-set model after every operation, including serialization framing; thorough also runs a reduced workload under Miri.',
    "rule": "seeded random insertion histories (years far apart, negative years, growth at both ends, duplicates, Dec 31/Jan 1 "
            "neighbours, day 31) compared operation by operation with a BTreeSet<NaiveDate>: insert return value, contains, count, "
            "ordered iter, first_after at dates before/inside/after/far outside the window, equality under permutation and against "
            "sets differing by one date, serialize/deserialize round trip with exact byte consumption and three calendars "
            "concatenated in one stream; CompactYear/CompactMonth public methods against sets; every (month, day) of four years "
            "enumerated singly; plus a SPAN LADDER: first and last stored year W years apart for W = 1..70, 2^k-1, 2^k, 2^k+1 up to 2^18 and the whole range chrono represents (524 285 years), built by appending, prepending and from the middle outwards, each through the full history check (span_ladder_histories = 321). Non-trivial = history with >= 2 distinct dates; distinct by hash of the history.",
    "assumptions": ["chrono's proleptic Gregorian calendar", "BTreeSet as the model of a sorted set"],
}

PROPS["C10"] = {
    "technique": 'exhaustive differential check of the embedded tables against the source text files',
    "level_text": 'Every (country, day 1990..2085, kind) lookup and every listed date is compared with the source files parsed at run time, the code parser is run on every short alphabetic string, and PH/SH are evaluated on every listed date: the finite space named by the property is enumerated completely.',
    "exhaustive": True,
    "rule": "exhaustive: all 115 countries x every day 1990-01-01..2085-12-31 x {public, school}: embedded calendar membership "
            "vs the text files in /repo/opening-hours/data parsed at run time; calendar count()/iter() vs the file's set; "
            "Country::ALL vs the regions of the files; every string of length <= 3 over [A-Za-z] plus case/whitespace variants "
            "through the code parser; 'PH'/'SH' evaluated with the country's calendar on every listed date, its neighbours and a "
            "stride of unlisted days; plus lookup HISTORIES: all 115 x 115 ordered pairs of countries looked up back to back and 12 (thorough 200) random sequences of 345 lookups per worker, every result compared with the file's set (ordered_pairs_of_lookups = 13 225, lookups_in_random_sequences ~ 66 000). evaluations = lookups; distinct_nontrivial = (country, kind) calendars with at least one date.",
    "assumptions": ["the two text files are the source data", "chrono date parsing"],
}

PROPS["C05"] = {
    "technique": "grammar-directed generation with syntactic-variant rendering; parsed AST compared with the denoted AST; single-field corruption table",
    "level_text": "Sentences are rendered from generated ASTs through every documented spelling variant (the renderer is independent of the library's Display) and the parser's output is compared field by field with the AST the sentence denotes; a table of single-field corruptions and unsupported constructs must be rejected. Exploration: coverage of productions x variants is measured and a variant never rendered fails the run.",
    "rule": "seeded ASTs restricted to shapes the documented grammar can denote (<= 4 rules quick / 6 thorough; every selector kind alone in a third of the cases) x 3..7 spellings each chosen among 36 variant knobs (incl. redundant and reordered entries of nth-position lists) (optional spaces, single-digit hours/days, off/closed, ':'/' ' separators, '+' forms, 'Jan 5-10', '\"c\":' prefix, ...); oracle: parse(render(ast)) == ast on the library's public AST type. Negative: ~1500 single-field corruptions (hour, minute, extended time, day, week, nth, year, zero step, empty, unbalanced quote) in 6 sentence contexts must be Err; points in time and Easter+day number must be Err. Plus, in every tier, an EXHAUSTIVE sweep of the value domain of every atomic field, one field per sentence, plain + 2 random spellings each (atomic_values_enumerated ~ 72 700): every year 1900..9999 alone / open-ended / as range end, year steps, all 53x53 week pairs and week steps 2..255, all 12x12 month pairs with and without year, every day 1..31 of every month alone, dated, and as range start with ends in the same/next month/year, day offsets -400..400 on dates, Easter and PH, weekday offsets, all 7x7 weekday pairs, all 1022 non-empty sets of nth positions per weekday, every clock minute 00:00..24:00 as start and 00:01..48:00 as end, open ends, repeats 1..1440 min, event offsets -1440..1440 for the four events at either end of a span. Non-trivial = expression with at least one selector; distinct by hash of the AST.",
    "assumptions": ["the harness renderer emits only sentences derivable from grammar.pest (checked by review and by the unchanged tree accepting all of them)", "PartialEq on the public AST types"],
}

PROPS["C01"] = {
    "technique": "reference-model monitor: pointwise 1440-minute model of the documented rule semantics vs schedule_at/state on generated expressions x boundary-biased days",
    "level_text": "Every generated (expression, holiday context, day) is evaluated by the library and by an independent pointwise model (direct calendar arithmetic, minute array, no range lists or hints) and compared minute by minute, on days derived from the expression's own selectors +-2, random days and contiguous sweeps; live Schedule structure is asserted through the verif_ranges hook. Exploration with measured selector-kind coverage; shapes no document settles are counted as abstentions, never judged.",
    "rule": "seeded ASTs (<= 4 rules/3 entries/3 spans quick; 6/4/4 thorough; each selector kind alone in ~30% of rotating shards) rendered to one of their spellings x holiday context (none / 6 synthetic calendars / embedded countries) x 64 targeted + 48 random days (thorough: 300 + 200 + 400..800-day sweep; single-selector expressions swept day by day 1900..2100); plus, in every tier, an EXHAUSTIVE sweep over every year 1900..9999 of nine year-dependent expressions (easter, easter with offsets, Feb 29, Feb 28-Mar 1 past midnight, week 53, weeks 01/52, stepped weeks, nth-from-end and 5th weekdays with offsets) on their boundary days (calendar_sweep_days); plus PARAMETER x YEAR GRIDS in every tier: one one-rule expression per value of each selector parameter - week 01..53, each of the 366 days of the year, each month and month pair, every year 1900..9999 (alone, open-ended, as end of a stepped range), every nth weekday Mo..Su x [-5..5], weekday offsets of six dates, day offsets -400..400 of four dates, Easter offsets -60..60, every clock minute as span start / span end up to 48:00 / open end, event offsets -1440..1440 for the four events, 100 000 (thorough: all 2.07 million) start x length pairs of clock minutes - each compared with the model on the days around its boundaries in EVERY year 1900..9999 (grid_days ~ 38 million day comparisons, grid_expressions_passed). Oracle: model_day() of harness/src/model.rs. Non-trivial = expression has a selector other than 24/7 (cases_with_varying_schedule counts those whose model array varies over the probed days); distinct by hash of (AST, context).",
    "assumptions": ["chrono's proleptic Gregorian calendar and ISO week numbers", "the harness's selector arithmetic (model.rs), cross-checked by the seeded mutants and by staying silent on the repaired tree", "abstention shapes listed in DESIGN.md section 5 are not judged"],
}

PROPS["C02"] = {
    "technique": "self-consistency monitor over the public API plus an offline check of the iterator's skip log (hook H2): interval stream vs schedule_at on every day the iterator did not look at",
    "level_text": "For generated (expression, context, window) the whole interval stream is consumed and checked for tiling (non-empty, increasing, gap-free, exact cover of [from, min(to, 10000-01-01)), alternating states) and every interval is compared with the daily schedules: all days of short intervals, and for long ones exactly the days the iterator reports as skipped (hook H2) plus model-derived candidate days. Exploration; the evidence states how many skipped days were point-checked and how many days inside long intervals were not.",
    "rule": "seeded ASTs (a third biased to long constant intervals) x holiday contexts x windows: short (<= 10 days, arbitrary start second), medium (<= 3 years), long (<= 60 years; thorough up to 8100 years), straddling 1900 / 9999, empty, inverted, open-ended (capped); plus an EXACT-STREAM GRID: ~460 (thorough ~1400 x 3 variants) one-rule expressions taking every value of one day-selector parameter (weeks, week ranges and steps, days of the year, months, month and date ranges, nth weekdays, weekday/day offsets, Easter offsets), plain or with '10:00-12:00' / '22:00-26:00 unknown', iterated over 1900..1960, 9940..9999 and a 400-year window rotating with the seed (thorough: the plain variants over the whole range 1900..9999) and compared interval by interval with the runs obtained by evaluating EVERY day of the window (exact_grid_days_evaluated ~ 88 million, exact_grid_intervals_compared ~ 11 million). Also a TIME-SHAPE GRID: every pair of spans built from the clock values 00:00, 00:01, 12:00, 23:59, 24:00, 24:01, 36:00, 47:59, 48:00, open ends and sun events (55 spans, ~ 6400 one-rule expressions quick, ~ 49 000 thorough) under 8 (16) day selectors, whole stream of 2018..2042 (1990..2050) compared with every day evaluated (time_shape_grid_windows_passed). Oracle: schedule_at of the same value (C01 ties it to the semantics). Non-trivial = stream with >= 2 intervals or a skip of >= 2 days; distinct by hash of (AST, context, window).",
    "assumptions": ["schedule_at is the pointwise truth (decided separately by C01)", "hook H2 reports every jump of the day cursor (one call site, reviewed)"],
}

PROPS["C03"] = {
    "technique": "self-consistency monitor: state / is_* / next_change vs a pointwise scan of the daily schedules, with same-interval probes; step budgets from hook H1 bound the cost of unbounded calls",
    "level_text": "At generated instants (sub-minute parts included) state is compared with the schedule of its day, the three predicates with state, and next_change with an exhaustive pointwise scan up to a horizon (3 years quick, 60 years thorough): never earlier, never later, None only when nothing changes; further probes inside the returned interval must give the same answer. Claims beyond the horizon are checked on the days the iterator skipped (hook H2) and on candidate days, and reported as sampled.",
    "rule": "seeded ASTs x holiday contexts x 3 instants each (days derived from the expression's selectors +-2 or random in 1900..9999; minutes at span bounds +-1; seconds/nanoseconds in a third); plus an EXACT GRID: the one-parameter expressions of C02's grid over a 150-year window rotating with the seed and over 9900..9999 (thorough: 1900..2400, 9500..9999 and a rotating 500-year window), every day evaluated, next_change from 120 (thorough 400) sampled instants per window (start, last minute and inside of a run) must equal the start of the next run, None exactly in the last run before 10000-01-01 (exact_grid_next_change_calls ~ 110 000). Non-trivial = instant with a pointwise change within the horizon; distinct by hash of (AST, context, instant).",
    "assumptions": ["schedule_at is the pointwise truth (decided separately by C01)", "beyond the horizon the no-change claim is checked on skipped and candidate days only (far_claims_sampled)"],
}

PROPS["C08"] = {
    "technique": "invariant monitor at the public API around both bounds of the supported date range, reusing the C02/C03 oracles",
    "level_text": "Expressions whose selectors straddle 1900 and 9999 are evaluated at instants just before/after both bounds and far outside them (years -262000..262000): state must be closed outside, no interval may start before the requested start or end after min(requested end, 10000-01-01), outside intervals are closed without comments, next_change never returns an instant at or beyond 10000-01-01, the same containment holds when the context carries an interval-size bound (containment only; the approximation is C16's), and next_change from before 1900 equals the first non-closed instant from 1900-01-01T00:00 found by a pointwise scan. Exploration.",
    "rule": "seeded ASTs with years/dates biased to 1900, 1901, 9998, 9999 and '+' forms, a third biased to long intervals, holiday calendars with dates outside the range x 2 instants each from 8 classes (just before/after 1900 and 10000, far before/after, the year before 1900, the last year) x a window of 1..30 days from the instant; plus an EDGE GRID: the ~1400 one-parameter expressions of the C02 grids (day selectors, pairs of boundary-valued spans) and a dozen edge-specific ones: iter_range(1899-12-25T06:30, 1900-01-20) and iter_range(9999-12-20T17:45, 10000-01-15) compared interval by interval with the runs obtained by evaluating every day inside the range (closed and comment-less before 1900-01-01, last interval ending at 10000-01-01, nothing beyond), state closed and next_change None / first in-range change at instants outside (edge_grid_expressions_passed). Non-trivial = expression with a selector; distinct by hash of (AST, context, instant).",
    "assumptions": ["schedule_at is the pointwise truth inside the range (C01)", "state at chrono's very last representable minute is outside the property's stated range and is not probed"],
}

PROPS["C06"] = {
    "technique": "self-consistency monitor: print -> parse -> evaluate both sides on boundary-biased days (kinds and comment sets), for expressions and their normal forms",
    "level_text": "Every generated expression (all Display branches: year steps, dated months, offsets, nth lists, holiday offsets, week ranges, open ends, repeats, event offsets, comments, the three separators) is printed by the library, reparsed, and both values are evaluated on days derived from both ASTs +-2, month starts and random days, comparing kinds per minute range and comments as sets after splitting on ', '; the same for the normal form. Exploration. The Python str/repr part of the property is observed by the C12 driver.",
    "rule": "seeded ASTs as in C01/C05 x holiday context x ~48 targeted + 32 random + 24 month-boundary days (thorough: + 400-day sweep); plus, in every tier, the ATOMIC-VALUE SWEEP shared with C05 (one one-rule expression per value of every atomic field: every year, every year step 2..65535, week pairs and steps, months, days, nth-position sets, clock minutes to 48:00, repeats, event and day offsets; ~ 138 000 expressions, atomic_values_enumerated), each printed, reparsed and evaluated on both sides. Non-trivial = expression with a selector; distinct by hash of the AST.",
    "assumptions": ["the library's evaluator is used on both sides (self-consistency)", "comment comparison is modulo joining with ', ' as the property allows"],
}

PROPS["C07"] = {
    "technique": "self-consistency monitor: original vs normalized expression evaluated on boundary-biased days; known finding D11 classified by trigger predicate after shrinking",
    "level_text": "Generated expressions, weighted towards canonical rules with overlapping selectors mixed with non-canonical rules, all operators and kinds, are normalized and both forms evaluated (schedule kinds per minute range and state at probed instants) on days derived from both forms' selectors +-2, every month boundary of a year and random days. Exploration; the evidence counts how many inputs were folded, emitted an additional rule, or changed at all.",
    "rule": "seeded ASTs with 80% canonical rules (plain ranges in every dimension) in 4 of 5 shards x holiday context x ~64 targeted + 40 random + 24 month-boundary days (thorough: + 800-day sweep); plus, in every tier, the ATOMIC-VALUE SWEEP shared with C05 (one one-rule expression per value of every atomic field: every year, every year step 2..65535, week pairs and steps, months, days, nth-position sets, clock minutes to 48:00, repeats, event and day offsets; ~ 138 000 expressions, atomic_values_enumerated), alone and followed by 'Mo-Fr 09:00-17:00', normalized and compared on days derived from both forms. Non-trivial = >= 2 rules and the normal form differs from the input; distinct by hash of the AST.",
    "assumptions": ["the library's evaluator is used on both sides (self-consistency)", "listed finding D11 (commentless_closed_before_midnight_span) is reported as KNOWN-FINDING, any failing reduction outside its trigger as VIOLATION"],
}

PROPS["C13"] = {
    "technique": "invariant monitor on normalize: second pass, repeated pass, reparsed clone, other thread, and print/reparse/re-normalize round trip",
    "level_text": "On overlap-heavy generated expressions normalize(normalize(e)) is compared with normalize(e) (PartialEq on expressions and on their print-outs), normalization of equal expressions (same value again, an independently reparsed equal value, a value normalized on another thread) must be equal, and the normal form must print, reparse, and - normalized once more after going through text - evaluate identically. Exploration.",
    "rule": "the C07 workload (80% canonical rules in 4 of 5 shards, all operators/kinds, comments on closed rules); plus, in every tier, the ATOMIC-VALUE SWEEP shared with C05 (one one-rule expression per value of every atomic field: every year, every year step 2..65535, week pairs and steps, months, days, nth-position sets, clock minutes to 48:00, repeats, event and day offsets; ~ 138 000 expressions, atomic_values_enumerated), alone and followed by 'Mo-Fr 09:00-17:00'. Non-trivial = the normal form differs from the input; distinct by hash of the AST.",
    "assumptions": ["PartialEq on the public AST types", "evaluation comparison as in C06"],
}

PROPS["C16"] = {
    "technique": "differential monitor: bounded context vs a pointwise scan of the unbounded daily schedules at instants placed around B-24h and B",
    "level_text": "For generated expressions (half biased to long intervals) and bounds B from 1 day to 2 years (thorough: to 50 years) +- minutes, instants are placed so that the exact next change lies at B-24h and B, +-1 min / +-1 day around both, and at the start, middle and end of intervals; the bounded next_change must be the exact answer or None, exact when required, None when required, and state must be unchanged. Exploration; the evidence counts how often each obligation (exact required / None required / either allowed) was exercised.",
    "rule": "seeded ASTs x holiday context x bound B in {1, 2, 7, 31, 366 d; thorough also 10 y, 50 y} + {0, +-1, 30, 720} min x up to 15 placed instants. Exact answer = first pointwise change found in the daily schedules within B + 2 days. Non-trivial: every checked instant (all have a definite obligation); distinct by hash of (AST, context, instant, bound).",
    "assumptions": ["schedule_at of the unbounded context is the pointwise truth (C01/C03)"],
}

PROPS["C17"] = {
    "technique": "invariant monitor on returned structures plus the reference model's per-minute provenance to recognise the 'exactly one rule, isolated' premise",
    "level_text": "For generated expressions with comments on random subsets of rules (shared, duplicate, containing ', ', on closed rules) every range of schedule_at on targeted and random days and every interval of short windows is checked: comments strictly increasing, all taken from rules of the expression, empty outside 1900..9999 and on days to which the model says no rule contributes; periods that the model attributes to exactly one rule with no other rule's minutes touching or overlapping must carry exactly that rule's comments; the first interval of iter_range carries the comments of the schedule period containing the start. Exploration.",
    "rule": "seeded ASTs with comments on 65% of the rules x holiday context x ~40 targeted + 24 random days + 3 days outside the range x 6 window starts (2 at the bounds); plus a SIZE FAMILY: 1..48 overlapping additional rules each with its own comment, in six variants (open / unknown / repeated texts / prefix + modifier comment / mixed kinds / texts of growing length), so that any threshold on the number of comments accumulated on one period is crossed one step at a time (many_comments_expressions_checked = 288, max_comments_on_one_range = 96). Non-trivial = at least one rule has a comment; distinct by hash of (AST, context).",
    "assumptions": ["the premise 'contributed by exactly one rule' is read conservatively from the model's per-rule minutes (DESIGN.md C17)", "abstention shapes of the model skip the provenance check only"],
}

PROPS["C09"] = {
    "technique": "differential monitor: zoned context vs the same expression without location at the wall-clock time, plus an independent statement of the naive->instant mapping on chrono-tz's LocalResult",
    "level_text": "For generated expressions (with span bounds placed inside and next to gaps and folds), ~46 curated zones (half-hour and 45-minute offsets, 30-minute DST, southern hemisphere, date-line changes, second-granular LMT) plus random IANA zones, and instants concentrated in the 48 h around real transitions found by scanning the zone, state/is_*/next_change/iter_range of the zoned context are compared with naive evaluation at the wall-clock time; every returned instant must be the unique / later / first-valid-after mapping of the naive result, and bounds must not go backwards in absolute time. Exploration; the evidence counts unique, ambiguous and non-existent naive results actually mapped.",
    "rule": "seeded ASTs (<= 3 rules) + in 45% of the cases a rule whose span bounds sit at a transition's wall-clock times +-1/15 min x zone x instant (75% within +-48 h of a transition of a sampled year 1900..2100, bias to +-90 min and to +-1 s/+-1 min) x input expressed in 3 other zones x window of 1 min..4 days; plus an EXHAUSTIVE sweep of every zone of the chrono-tz database (596) x every offset transition of 1985..2037 (thorough: 1900..2100) found by scanning, two single-rule expressions per transition with span bounds in/at the gap or fold, instant at the transition -2 h..+2 h (sweep_zones, sweep_transitions, sweep_checks_passed). Non-trivial: every checked instant; distinct by hash of (AST, zone, instant).",
    "assumptions": ["chrono-tz's database and LocalResult are shared with the implementation: a wrong database is out of scope, a wrong use of it is what is monitored", "naive evaluation is the reference (C01-C03)"],
}

PROPS["C11"] = {
    "technique": "physical-invariant monitor on event instants and on evaluation with inferred contexts, plus acceptance-boundary probing of the coordinate validator",
    "level_text": "Without coordinates, event-based spans with offsets must sit at 06:00/07:00/19:00/20:00 on random dates (naive and zoned contexts). Coordinate pairs from a boundary set (+-90, +-180, +-1 ulp, +-inf, NaN, huge) and random ones must be accepted iff within range and not NaN. Every accepted pair (5-degree global grid incl. poles and antimeridian, random sites, 40 cities) must yield a zone and evaluate without panic; below 60 degrees the five event instants must be strictly ordered, solar noon within 25 min of mean solar noon, the day's schedule must show exactly the local event times, 'sunrise-sunset' open at solar noon and closed 12 h away, the inferred zone within 5 h of mean solar time, and reference cities mapped to a zone with their offsets. Exploration.",
    "rule": "exhaustive over dates: the defaults are checked on EVERY day 1900-01-02..9999-12-31 in a plain and a zoned context (default_event_days_swept = 2 958 463); seeded: per case one default-event check (random date 1900..9999, two events with offsets, random zone), four coordinate-pair acceptance probes, and one site (60% random with |lat| <= 60, 10% at latitude boundaries/poles, 10% at the antimeridian, 20% near a reference city) on a date of 1900..2100 (solstices and equinoxes over-weighted). Non-trivial = site check completed; distinct by hash of (lat, lon, date). Zone inference is compared with an own instance of tzf-rs's DefaultFinder (the finder the library is documented to use; unknown names -> UTC as in the library) on 6000 (thorough 60 000) walks across zone borders: end points in different zones (cities or random sites), border located by bisection on the oracle, then 14 lookups stepping +-10 m..500 m across it (border_walk_lookups, border_crossings_between_consecutive_lookups). Immediately before each judged site the same coordinates are evaluated under another, explicit zone on the same dates (hostile history; the first evaluation in the judged context must already be right). The open-at-noon/closed-at-midnight probe is made only when all five events fall on the same local calendar day (abstained_wrap otherwise).",
    "assumptions": ["the astronomy of the `sunrise` crate is trusted up to the physical-ordering checks", "tzf-rs/chrono-tz data are trusted; only their use is monitored"],
}

import c18 as _c18

PROPS["C18"] = {
    "workers": False,
    "special": _c18.special,
    "technique": "history monitor over fresh processes: concurrent results vs a sequential reference process, first use of the lazy tables raced through hook H3 gates/delays; thorough adds ThreadSanitizer and Miri",
    "level_text": "A reference process evaluates a generated case list sequentially and probes history dependence (repeated calls; each case re-evaluated right after adversarial neighbours - same expression in another context / another expression in the same context at t-1d, t, t+1d, the context changed in ONE component at a time: calendar, country, zone, coordinates under the same zone, and always first the same coordinates under another zone; evaluated alone in a fresh thread; 240 pairs of places with ADJACENT f64 latitudes and different daily schedules (found by bisection, every evaluation on a fresh thread) evaluated back to back on one thread, one of them in 15 ways (schedule_at / state / intervals on day D-2..D+2) right before the other's schedule of day D, in both orders (adjacent_coordinate_sequences ~ 6400); values sharing ONE parsed expression through clone + with_context evaluated alternately on the same day against independently parsed values); then fresh processes (lazy tables uninitialised) start 2..64 threads on a barrier, every thread walking its own permutation of the cases on shared Arc values, clones and fresh parses, with a rendez-vous before first use of each lazy table and delays of 0 / 50 us / 5 ms injected inside the initialisers (hook H3); every answer (state, next_change, 16 intervals, 3 daily schedules, holiday-calendar facts, inferred zone and country) is compared with the reference and identifies (thread, step, case). Thorough repeats the race under ThreadSanitizer (-Zbuild-std) and a reduced race (holiday tables only, light answers) under Miri with several scheduler seeds. Exploration of interleavings: the evidence reports in how many runs first use was actually contended.",
    "rule": "4 case lists (thorough 10) of 400 seeded (expression, context in {none, synthetic calendar, embedded country, fixed zone, explicit zone + coordinates, coordinates -> inferred zone+country}, instant) x 36 (thorough 200) fresh processes each over threads {2,4,16,64} x initialiser delay {0, 50 us, 5 ms} x gate on/off. evaluations = single evaluations of a case; distinct_nontrivial = distinct cases by hash (all are non-trivial: each yields a multi-part answer).",
    "assumptions": ["answers are compared as formatted strings of the public results", "Miri cannot run the tz-finder within budget: tz/country lazies are raced natively and under TSan only", "step budgets (hook H1, thread-local) make unbounded calls deterministic-cost; a budget cut is part of the compared answer"],
}

import c12 as _c12

PROPS["C12"] = {
    "workers": False,
    "special": _c12.special,
    "technique": "differential monitor across the FFI boundary: CPython drives the built extension module, every result compared with the Rust core's answer for the documented equivalent context",
    "level_text": "The extension module is built from /repo's working tree (as shipped, hooks off) and imported by the system CPython. Cases generated by the harness cover constructor argument combinations (timezone x country {none, valid, invalid} x coords {none, valid, invalid} x auto flags {True, False, None, omitted}), valid and invalid expressions, naive and aware datetimes in 10 zones, and the methods state, is_*, next_change, intervals(start[, end]), normalize, str, repr, validate; expected answers are computed by the Rust core for the context the constructor's documentation prescribes. The driver compares local fields, zone key and utc offset of every returned datetime, exception classes, None for 10000-01-01, and flags any pyo3 PanicException. Exploration.",
    "rule": "seeded: ~40000 constructor cases quick (600000 thorough) x up to 10 calls each, 16 driver processes; datetimes cross the process boundary as (local fields | unix timestamp, zone key); aware inputs are drawn from 1971..2036 in ten zones, and - under a naive or fixed-offset context, 10% / 4% of the calls - from the last 30 hours of 9999 / within a day of 1900-01-01 in zones whose offset is fixed there (UTC, Asia/Tokyo, Asia/Kolkata, Etc/GMT+12, Etc/GMT-14, Pacific/Honolulu), start and end in different zones. The one constructor combination the documentation does not settle (timezone + coords + auto_timezone=False: are coordinates kept for sun events?) is judged on expressions without events only; a datetime comparison abstains (counted) when Python's tzdata and chrono-tz disagree on the offset of that local time. Non-trivial = object built and called; distinct by hash of the constructor arguments.",
    "assumptions": ["the Rust core is the reference (decided by C01-C11)", "pyo3's datetime conversions are part of what is observed", "system tzdata vs chrono-tz differences are abstained on"],
}

import c04 as _c04

PROPS["C04"] = {
    "special": _c04.special,
    "technique": "hostile-input monitor: catch_unwind around every public call plus logical step budgets counted by hook H1 (bounded work decided on steps, not time); two build profiles; thorough adds libFuzzer+ASan",
    "level_text": "Three hostile string sources (token-level mutation of rendered sentences and of the suite's 204 sample lines with a dictionary of known troublemakers, single-field numeric corruptions, random Unicode) go through parse; everything that parses is printed, normalized (paving operations counted against a polynomial budget) and evaluated - schedule_at, state, is_*, iter_range consumed, next_change - in naive, zoned (zones with gaps and date-line changes) and coordinate-inferred contexts (poles, antimeridian), with and without interval-size bounds, at instants from years -262000..262000. A panic is a violation; so is a call that takes more outer day-steps than its window has days, or inner loop ticks out of proportion with the expression's size. Both the checked profile (debug assertions, overflow checks) and the plain release profile are run. Exploration.",
    "rule": "seeded strings from 8 rotating sources (rendered sentence; 2x mutated rendered sentence; 2x mutated sample line; digit-run corruption; random Unicode; dictionary triples) x 3 contexts (30% with an interval-size bound of 1 / 7 / 366 / 18 000 days, of which 12% hostile: TimeDelta::MAX, MAX - 1 day, MAX - 23 h, MIN, zero, -5 min, 1 ns, 86 399 s, 3 million days, half the representable days) x windows of 0..5000 days, with a budget on the number of intervals an iterator may yield (hook site IterNext); unbounded next_change from arbitrary instants in 0.4% of the evaluated strings (2% thorough) with a budget of (days to 10000-01-01)+3 day-steps. Non-trivial = string parses, or is rejected and non-empty; distinct by hash of the string.",
    "assumptions": ["hook H1 counts every iteration of the evaluator's loops (sites reviewed)", "the wall-clock watchdog only makes a run inconclusive", "the Feb-29 scan and offset windows are linear in years by design; budgets account for them"],
}
