#!/bin/bash
# usage: lib/seeded_regression.sh [id ...]
# applies every kept seeded change to /repo in turn, runs the QUICK check of the property it was
# written against (or the check named by meta.json 'regression_check' when the change lands in
# another property's territory), reverts, and writes one line per change to seeded/REGRESSION.txt.
# /repo must be clean; nothing else may use /repo or /verif/target meanwhile.
cd /verif
if ! git -C /repo diff --quiet; then echo "/repo working tree not clean"; exit 2; fi
ids=${@:-$(ls seeded | grep -v REGRESSION)}
out=seeded/REGRESSION.txt
[ $# -eq 0 ] && : > $out
for id in $ids; do
  prop=$(python3 -c "import json;m=json.load(open('seeded/$id/meta.json'));print(m.get('regression_check') or m['property'].split()[0].strip(',;'))")
  git -C /repo apply /verif/seeded/$id/patch.diff || { echo "$id $prop PATCH-DOES-NOT-APPLY" | tee -a $out; continue; }
  s=$(date +%s)
  res=$(./check $prop --tier quick 2>&1); code=$?
  e=$(date +%s)
  git -C /repo checkout -- .
  first=$(echo "$res" | grep -E '^  [a-z_]+:' | head -1 | cut -c1-160)
  echo "$id $prop exit=$code $((e-s))s violations=$(echo "$res" | grep -c '^VIOLATION') $first" | tee -a $out
done
git -C /repo status --short | head -3
