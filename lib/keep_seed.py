#!/usr/bin/env python3
"""usage: keep_seed.py <id> <caught_by: 'C01 quick; ...'> <my confirmation text>  -> /verif/seeded/<id>/"""
import json, os, shutil, sys
sid, caught, confirm = sys.argv[1], sys.argv[2], sys.argv[3]
src = f"/tmp/wt/out-{sid}"
dst = f"/verif/seeded/{sid}"
os.makedirs(dst, exist_ok=True)
for f in os.listdir(src):
    if f in ("patch.diff", "demo.rs", "demo.py", "meta.json", "README.md", "README.txt"):
        shutil.copy(os.path.join(src, f), dst)
m = json.load(open(os.path.join(dst, "meta.json")))
m["confirmed_by_me"] = confirm
m["checks_run_against_it"] = caught
json.dump(m, open(os.path.join(dst, "meta.json"), "w"), indent=1)
print("kept", sid)
