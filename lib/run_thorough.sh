#!/bin/bash
# run every thorough check once, sequentially; one summary line each
cd "$(dirname "$0")/.."
for i in ${@:-01 02 03 04 05 06 07 08 09 10 11 12 13 14 15 16 17 18 19 20}; do
  s=$(date +%s)
  out=$(./check C$i --tier thorough 2>&1)
  code=$?
  e=$(date +%s)
  echo "C$i exit=$code $((e-s))s $(echo "$out" | grep -E '^\[C' | head -1 | cut -c1-120) viol=$(echo "$out" | grep -c '^VIOLATION') $(echo "$out" | grep -E '^(INCONCLUSIVE|  )' | head -3 | cut -c1-400 | tr '\n' ' ')"
done
