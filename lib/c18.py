"""C18: orchestration of the reference process, the fresh racing processes, and (thorough) the
ThreadSanitizer and Miri variants."""
import json, os, re, shutil, subprocess, time
from concurrent.futures import ThreadPoolExecutor


def _run(cmd, env=None, timeout=3600, cwd=None):
    return subprocess.run(cmd, stdout=subprocess.PIPE, stderr=subprocess.STDOUT, text=True, env=env, timeout=timeout, cwd=cwd)


def special(ctx, merged_unused):
    log = ctx["log"]
    tier, seed = ctx["tier"], ctx["seed"]
    binary = ctx["binary"]
    wdir = os.path.join(ctx["WORK"], "C18")
    shutil.rmtree(wdir, ignore_errors=True)
    os.makedirs(wdir, exist_ok=True)
    reports = []
    n_lists = 4 if tier == "quick" else 10
    per_list = int((36 if tier == "quick" else 200) * ctx["scale"]) or 1
    combos = [(t, d, g) for t in (2, 4, 16, 64) for d in (0, 50, 5000) for g in (1, 0)]
    jobs = []
    for li in range(n_lists):
        s = seed * 100 + li
        ref = os.path.join(wdir, f"ref{li}.json")
        out = os.path.join(wdir, f"ref{li}.report.json")
        p = _run([binary, "C18", "--seed", str(s), "--extra", "mode=reference", "--extra", f"ref={ref}", "--out", out])
        if not os.path.exists(out):
            ctx["violations"].append({"kind": "abort", "message": f"reference process died: {p.stdout[-500:]}", "case": {"seed": s}, "known": None})
            continue
        reports.append(json.load(open(out)))
        for k in range(per_list):
            t, d, g = combos[(k + li) % len(combos)]
            jobs.append((s, ref, k, t, d, g))

    def one(job):
        s, ref, k, t, d, g = job
        out = os.path.join(wdir, f"t{s}_{k}.json")
        cmd = [binary, "C18", "--seed", str(s), "--worker", str(k), "--extra", "mode=threads", "--extra", f"threads={t}", "--extra", f"delay={d}", "--extra", f"gate={g}", "--extra", f"ref={ref}", "--out", out]
        try:
            p = _run(cmd, timeout=1800)
        except subprocess.TimeoutExpired:
            return ("timeout", job, None)
        if not os.path.exists(out):
            return ("abort", job, p.stdout[-600:])
        r = json.load(open(out))
        os.remove(out)
        return ("ok", job, r)

    # fresh processes, a few at a time (each runs up to 64 threads)
    with ThreadPoolExecutor(max_workers=6) as ex:
        for status, job, r in ex.map(one, jobs):
            if status == "ok":
                reports.append(r)
            elif status == "timeout":
                ctx["inconclusive"].append(f"racing process {job} hit the watchdog")
            else:
                ctx["violations"].append({"kind": "abort", "message": f"racing process (seed {job[0]}, threads {job[3]}, delay {job[4]} us) died: {r}", "case": {"seed": job[0], "threads": job[3]}, "known": None})
    # steady-state hammer: many contexts on the same few days, every answer compared with the
    # sequential one (shared state between evaluations of different contexts)
    # profile "sun": a ladder of key counts (a shared table of unknown size is hit hardest when it holds
    # about as many keys as it has places: hits AND evictions are both frequent)
    hammer_jobs = [(n_, 16, 120_000, "sun") for n_ in (64, 256, 512, 1024, 2048, 4096, 8192)] + [(4096, 4, 300_000, "mixed"), (1024, 32, 60_000, "mixed"), (4096, 16, 100_000, "mixed")]
    if tier != "quick":
        hammer_jobs = [(p_, t_, int(i_ * 4 * ctx["scale"]) or 1000, pr_) for rep_ in range(6) for (p_, t_, i_, pr_) in hammer_jobs]
    for hi, (places, threads, iters, profile) in enumerate(hammer_jobs):
        out = os.path.join(wdir, f"hammer{hi}.json")
        cmd = [binary, "C18", "--seed", str(seed * 1000 + hi), "--extra", "mode=hammer", "--extra", f"places={places}", "--extra", f"threads={threads}", "--extra", f"iters={iters}", "--extra", f"profile={profile}", "--out", out]
        try:
            p = _run(cmd, timeout=1800)
        except subprocess.TimeoutExpired:
            ctx["inconclusive"].append(f"hammer process {hi} hit the watchdog")
            continue
        if not os.path.exists(out):
            ctx["violations"].append({"kind": "abort", "message": f"hammer process (places {places}, threads {threads}) died: {p.stdout[-600:]}", "case": {"seed": seed * 1000 + hi, "mode": "hammer"}, "known": None})
            continue
        reports.append(json.load(open(out)))
    merged = ctx["merge"](reports)
    ctx["violations"] += merged["violations"]
    obs = dict(sorted(merged["counters"].items()))
    cov = ctx["extra_coverage"]
    cov.update({
        "evaluations": merged["evaluations"],
        "distinct_nontrivial": len(merged["distinct"]),
        "samples": merged["samples"][:4],
        "observed": obs,
        "fresh_processes": len(jobs),
        "case_lists": n_lists,
        "thread_counts": [2, 4, 16, 64],
        "init_delays_us": [0, 50, 5000],
    })
    contended = sum(v for k, v in obs.items() if k.endswith("runs_with_contended_first_use"))
    if contended < max(1, len(jobs) // 4):
        ctx["inconclusive"].append(f"first use was contended in only {contended} runs")
    if obs.get("hammer_concurrent_evaluations", 0) < 100_000 * min(1.0, ctx["scale"]):
        ctx["inconclusive"].append("the steady-state hammer evaluated too little")
    if obs.get("concurrent_evaluations", 0) < 1000 * ctx["scale"]:
        ctx["inconclusive"].append("too few concurrent evaluations")

    if tier == "thorough":
        tsan(ctx, cov)
        miri(ctx, cov)


def tsan(ctx, cov):
    """Same racing workload under ThreadSanitizer (nightly, -Zbuild-std)."""
    log = ctx["log"]
    t0 = time.time()
    target = ctx["TARGET"] + "-tsan"
    env = ctx["cargo_env"]("-Zsanitizer=thread")
    env["RUSTUP_TOOLCHAIN"] = "nightly"
    p = _run(["cargo", "build", "--offline", "--release", "-Zbuild-std", "--target", "x86_64-unknown-linux-gnu", "--target-dir", target], env=env, cwd=ctx["HARNESS"], timeout=3600)
    if p.returncode != 0:
        ctx["inconclusive"].append("ThreadSanitizer build failed: " + p.stdout[-800:])
        return
    binary = os.path.join(target, "x86_64-unknown-linux-gnu", "release", "ohv")
    log(f"[build] tsan ok in {time.time() - t0:.1f}s")
    wdir = os.path.join(ctx["WORK"], "C18", "tsan")
    os.makedirs(wdir, exist_ok=True)
    runs, reports_total, dedup = 0, 0, {}
    nproc = int(60 * ctx["scale"]) or 1
    for k in range(nproc):
        s = ctx["seed"] * 100 + (k % 5)
        ref = os.path.join(wdir, f"ref{k}.json")
        logp = os.path.join(wdir, f"tsan{k}")
        env2 = dict(os.environ, TSAN_OPTIONS=f"halt_on_error=0 exitcode=66 log_path={logp} second_deadlock_stack=1")
        threads = (2, 4, 16, 32)[k % 4]
        # reference inside the sanitized binary too (sequential), then the race in a fresh process
        _run([binary, "C18", "--seed", str(s), "--extra", "mode=reference", "--extra", "cases=150", "--extra", f"ref={ref}", "--out", os.path.join(wdir, "r.json")], env=env2, timeout=3600)
        out = os.path.join(wdir, f"t{k}.json")
        p = _run([binary, "C18", "--seed", str(s), "--worker", str(k), "--extra", "mode=threads", "--extra", "cases=150", "--extra", f"threads={threads}", "--extra", f"delay={(0, 50, 5000)[k % 3]}", "--extra", f"ref={ref}", "--out", out], env=env2, timeout=3600)
        runs += 1
        if os.path.exists(out):
            r = json.load(open(out))
            ctx["violations"] += r["violations"]
        if k % 10 == 0:
            # the steady-state hammer under the sanitizer as well (smaller: TSan costs 5-7x)
            hout = os.path.join(wdir, f"h{k}.json")
            _run([binary, "C18", "--seed", str(s + 7), "--extra", "mode=hammer", "--extra", "places=512", "--extra", "threads=8", "--extra", "iters=15000", "--extra", "profile=sun", "--out", hout], env=env2, timeout=3600)
            if os.path.exists(hout):
                r = json.load(open(hout))
                ctx["violations"] += r["violations"]
                cov["tsan_hammer_evaluations"] = cov.get("tsan_hammer_evaluations", 0) + r["counters"].get("hammer_concurrent_evaluations", 0)
        for f in os.listdir(wdir):
            if f.startswith(f"tsan{k}."):
                text = open(os.path.join(wdir, f)).read()
                for block in text.split("==================")[1:]:
                    if "WARNING: ThreadSanitizer" not in block:
                        continue
                    reports_total += 1
                    frames = re.findall(r"#\d+ (\S+) .*?(/repo/\S+|/verif/\S+)", block)
                    key = frames[0] if frames else ("?", "?")
                    dedup.setdefault(str(key), block[:1500])
    cov["tsan"] = {"processes": runs, "report_blocks": reports_total, "distinct_reports_by_first_in_repo_frame": len(dedup)}
    for key, block in dedup.items():
        ctx["violations"].append({"kind": "thread_sanitizer_report", "message": f"ThreadSanitizer report, first in-repo frame {key}:\n{block}", "case": {"seed": ctx["seed"], "threads": 16}, "known": None})


def miri(ctx, cov):
    """Reduced workload (3 threads, holiday tables only) under Miri with several scheduler seeds."""
    log = ctx["log"]
    t0 = time.time()
    env = ctx["cargo_env"]()
    env["RUSTUP_TOOLCHAIN"] = "nightly"
    seeds = int(8 * ctx["scale"]) or 1
    env["MIRIFLAGS"] = f"-Zmiri-disable-isolation -Zmiri-many-seeds=0..{seeds}"
    target = ctx["TARGET"] + "-miri"
    cmd = ["cargo", "miri", "run", "--offline", "--target-dir", target, "--", "C18", "--seed", str(ctx["seed"]), "--extra", "mode=small", "--extra", "cases=6", "--extra", "tz=0", "--extra", "threads=3", "--extra", "light=1"]
    try:
        p = _run(cmd, env=env, cwd=ctx["HARNESS"], timeout=4 * 3600)
    except subprocess.TimeoutExpired:
        ctx["inconclusive"].append("Miri run hit the watchdog")
        return
    ub = "Undefined Behavior" in p.stdout or "data race" in p.stdout.lower()
    cov["miri"] = {"scheduler_seeds": seeds, "wall_s": round(time.time() - t0, 1), "exit": p.returncode, "undefined_behaviour_or_race_reported": ub}
    if ub:
        ctx["violations"].append({"kind": "miri_report", "message": "Miri reported undefined behaviour / a data race:\n" + p.stdout[-3000:], "case": {"seed": ctx["seed"], "threads": 3}, "known": None})
    elif p.returncode != 0:
        # mismatches are reported through the JSON the binary prints; anything else is inconclusive
        m = re.findall(r'"violations":\[(.*?)\],"', p.stdout)
        if any(x.strip() for x in m):
            ctx["violations"].append({"kind": "miri_result_differs", "message": "under Miri a racing thread's result differs from the sequential one: " + p.stdout[-2000:], "case": {"seed": ctx["seed"], "threads": 3}, "known": None})
        else:
            ctx["inconclusive"].append("Miri run failed: " + p.stdout[-800:])
