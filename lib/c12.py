"""C12: build the extension module from /repo's working tree, generate cases with the Rust core,
replay them in CPython, merge."""
import json, os, shutil, subprocess, sys, time


def special(ctx, merged_unused):
    log = ctx["log"]
    wdir = os.path.join(ctx["WORK"], "C12")
    shutil.rmtree(wdir, ignore_errors=True)
    os.makedirs(wdir, exist_ok=True)
    t0 = time.time()
    env = dict(os.environ, CARGO_NET_OFFLINE="true")
    env.pop("RUSTFLAGS", None)  # the shipped module: hooks off
    target = ctx["TARGET"] + "-py"
    p = subprocess.run(["cargo", "build", "-p", "opening-hours-py", "--release", "--offline", "--target-dir", target], cwd=ctx["REPO"], env=env, stdout=subprocess.PIPE, stderr=subprocess.STDOUT, text=True)
    if p.returncode != 0:
        log(p.stdout[-3000:])
        log("ERROR: extension module build failed (exit 2)")
        sys.exit(2)
    shutil.copy(os.path.join(target, "release", "libopening_hours.so"), os.path.join(wdir, "opening_hours.so"))
    log(f"[build] extension module ok in {time.time() - t0:.1f}s")
    nshards = ctx["workers"]
    procs = []
    for w in range(nshards):
        cases = os.path.join(wdir, f"cases{w}.json")
        genrep = os.path.join(wdir, f"gen{w}.json")
        cmd = [ctx["binary"], "C12", "--seed", str(ctx["seed"] * 1000 + w), "--worker", str(w), "--of", str(nshards), "--tier", ctx["tier"], "--scale", str(ctx["scale"]), "--extra", f"cases={cases}", "--out", genrep]
        procs.append((w, cases, genrep, subprocess.Popen(cmd, stdout=subprocess.DEVNULL, stderr=subprocess.PIPE, text=True)))
    reports = []
    drivers = []
    for w, cases, genrep, p in procs:
        p.wait()
        if not os.path.exists(genrep):
            ctx["violations"].append({"kind": "abort", "message": f"case generator died: {p.stderr.read()[-500:]}", "case": {}, "known": None})
            continue
        g = json.load(open(genrep))
        reports.append(g)
        out = os.path.join(wdir, f"py{w}.json")
        drivers.append((w, cases, out, subprocess.Popen(["python3", os.path.join(ctx["VERIF"], "py", "c12_driver.py"), wdir, cases, out], stdout=subprocess.PIPE, stderr=subprocess.STDOUT, text=True)))
    for w, cases, out, p in drivers:
        try:
            stdout, _ = p.communicate(timeout=3600 if ctx["tier"] == "quick" else 4 * 3600)
        except subprocess.TimeoutExpired:
            p.kill()
            ctx["inconclusive"].append(f"python driver {w} hit the watchdog")
            continue
        if not os.path.exists(out):
            ctx["violations"].append({"kind": "abort", "message": f"the CPython process died while driving the extension (exit {p.returncode}): {stdout[-800:]}", "case": {"cases_file": cases}, "known": None})
            continue
        r = json.load(open(out))
        for v in r["violations"]:
            v["case"]["cases_file"] = cases
        reports.append(r)
    merged = ctx["merge"](reports)
    # only the Python side's violations and counters decide; generator counters are coverage
    ctx["violations"] += merged["violations"]
    obs = dict(sorted(merged["counters"].items()))
    cov = ctx["extra_coverage"]
    cov.update({
        "evaluations": merged["evaluations"],
        "distinct_nontrivial": len(merged["distinct"]),
        "samples": merged["samples"][:3],
        "observed": obs,
        "python": sys.version.split()[0],
    })
    if obs.get("objects_built", 0) < 500 * ctx["scale"] or obs.get("calls_agreeing", 0) < 3000 * ctx["scale"]:
        ctx["inconclusive"].append(f"observed too little: objects_built={obs.get('objects_built')} calls_agreeing={obs.get('calls_agreeing')}")
    if ctx["tier"] == "thorough":
        memcheck(ctx, wdir, cov)


def memcheck(ctx, wdir, cov):
    """Supporting evidence only: the driver under valgrind memcheck on a small sample (FFI boundary)."""
    cases = os.path.join(wdir, "cases0.json")
    data = json.load(open(cases))
    data["cases"] = data["cases"][:60]
    data["validate"] = data["validate"][:40]
    small = os.path.join(wdir, "cases_small.json")
    json.dump(data, open(small, "w"))
    out = os.path.join(wdir, "py_memcheck.json")
    logf = os.path.join(wdir, "memcheck.log")
    env = dict(os.environ, PYTHONMALLOC="malloc")
    try:
        p = subprocess.run(["valgrind", "--tool=memcheck", "--error-exitcode=0", f"--log-file={logf}", "--suppressions=/usr/lib/valgrind/python3.supp" if os.path.exists("/usr/lib/valgrind/python3.supp") else "--num-callers=20", "python3", os.path.join(ctx["VERIF"], "py", "c12_driver.py"), wdir, small, out], env=env, stdout=subprocess.PIPE, stderr=subprocess.STDOUT, text=True, timeout=3 * 3600)
    except subprocess.TimeoutExpired:
        cov["memcheck"] = {"status": "timeout"}
        return
    import re
    text = open(logf).read() if os.path.exists(logf) else ""
    blocks = re.split(r"==\d+== \n", text)
    # only errors raised *inside* the extension (top frame in opening_hours.so) count; CPython's own
    # allocator tricks are noise without a suppression file
    in_ext = []
    uninit = 0
    for b in blocks:
        lines = [l for l in b.splitlines() if " at 0x" in l]
        # "Conditional jump depends on uninitialised value" inside optimised *safe* Rust (observed in
        # next_change_from_intervals: an Option<NaiveDate> read through a wider load) is a known
        # memcheck artefact of LLVM's handling of padding/niches, not a defect: counted, never judged
        if lines and "opening_hours" in lines[0] and "uninitialised" in b:
            uninit += 1
        if lines and "opening_hours" in lines[0] and ("Invalid read" in b or "Invalid write" in b or "Invalid free" in b or "Mismatched free" in b):
            in_ext.append(b)
    summary = [l for l in text.splitlines() if "ERROR SUMMARY" in l]
    cov["memcheck"] = {"status": "done", "summary": summary[-1] if summary else "", "error_blocks_total": len([b for b in blocks if " at 0x" in b]), "invalid_access_blocks_raised_inside_the_extension": len(in_ext), "uninitialised_value_blocks_inside_the_extension_not_judged": uninit}
    for b in in_ext[:3]:
        ctx["violations"].append({"kind": "memcheck_report", "message": "valgrind memcheck error raised inside the extension module:\n" + b[:1500], "case": {}, "known": None})
