#![allow(dead_code, unused_variables, unused_imports)]
//! `ohv` — worker binary of the runtime-monitoring framework for opening-hours-rs.
//!
//!   ohv <Cxx> --seed S --worker W --of N --tier quick|thorough --out FILE [--known a,b] [--scale F] [--extra k=v]
//!   ohv <Cxx> --replay CASE.json [--known a,b]
//!
//! The orchestration (build, sharding, merging, evidence, known findings) is done by /verif/check.


use ohv::out::{Args, Report};
use ohv::{monitors, out};

fn parse_args() -> Args {
    let mut it = std::env::args().skip(1);
    let monitor = it.next().unwrap_or_else(|| {
        eprintln!("usage: ohv <Cxx> [options]");
        std::process::exit(2)
    });
    let mut a = Args { monitor: monitor.to_uppercase(), seed: 1, worker: 0, of: 1, tier: "quick".into(), out: None, known: vec![], replay: None, scale: 1.0, extra: vec![] };
    while let Some(k) = it.next() {
        let mut val = || it.next().unwrap_or_else(|| panic!("missing value for {k}"));
        match k.as_str() {
            "--seed" => a.seed = val().parse().expect("seed"),
            "--worker" => a.worker = val().parse().expect("worker"),
            "--of" => a.of = val().parse().expect("of"),
            "--tier" => a.tier = val(),
            "--out" => a.out = Some(val()),
            "--known" => a.known = val().split(',').filter(|s| !s.is_empty()).map(|s| s.to_string()).collect(),
            "--replay" => a.replay = Some(val()),
            "--scale" => a.scale = val().parse().expect("scale"),
            "--extra" => a.extra.push(val()),
            other => panic!("unknown option {other}"),
        }
    }
    a
}

fn main() {
    out::install_quiet_panic_hook();
    if std::env::args().nth(1).as_deref() == Some("corpus") {
        for s in ohv::monitors::common::corpus() {
            println!("{s}");
        }
        return;
    }
    if std::env::args().nth(1).as_deref() == Some("parse") {
        // debugging aid: one expression per stdin line -> parsed AST, printed form, normal form
        for line in std::io::stdin().lines() {
            let line = line.unwrap();
            match out::guarded(|| opening_hours_syntax::parse(&line)) {
                Ok(Ok(e)) => println!("{line:?}\n  ast: {e:?}\n  display: {:?}\n  normal: {:?}", e.to_string(), e.clone().normalize().to_string()),
                Ok(Err(e)) => println!("{line:?}\n  ERR {}", e.to_string().replace('\n', " | ")),
                Err(p) => println!("{line:?}\n  PANIC {p}"),
            }
        }
        return;
    }
    let args = parse_args();
    let mut rep = Report::new(&args);
    let t0 = std::time::Instant::now();

    if let Some(path) = &args.replay {
        let text = std::fs::read_to_string(path).unwrap_or_else(|e| panic!("cannot read replay {path}: {e}"));
        let v: serde_json::Value = serde_json::from_str(&text).expect("replay file is not JSON");
        let case = if v.get("case").is_some() { v["case"].clone() } else { v };
        match args.monitor.as_str() {
            "C01" => monitors::c01::replay(&args, &case, &mut rep),
            "C02" => monitors::c02::replay(&args, &case, &mut rep),
            "C03" => monitors::c03::replay(&args, &case, &mut rep),
            "C04" => monitors::c04::replay(&args, &case, &mut rep),
            "C05" => monitors::c05::replay(&case, &mut rep),
            "C06" => monitors::c06::replay(&args, &case, &mut rep),
            "C07" => monitors::c07::replay(&args, &case, &mut rep),
            "C08" => monitors::c08::replay(&args, &case, &mut rep),
            "C09" => monitors::c09::replay(&args, &case, &mut rep),
            "C10" => monitors::c10::replay(&case, &mut rep),
            "C11" => monitors::c11::replay(&case, &mut rep),
            "C12" => monitors::c12::replay(&args, &case, &mut rep),
            "C13" => monitors::c13::replay(&args, &case, &mut rep),
            "C14" => monitors::c14::replay(&case, &mut rep),
            "C15" => monitors::c15::replay(&case, &mut rep),
            "C16" => monitors::c16::replay(&args, &case, &mut rep),
            "C17" => monitors::c17::replay(&args, &case, &mut rep),
            "C18" => monitors::c18::replay(&args, &case, &mut rep),
            "C19" => monitors::c19::replay(&case, &mut rep),
            "C20" => monitors::c20::replay(&case, &mut rep),
            other => panic!("no replay for {other}"),
        }
    } else {
        match args.monitor.as_str() {
            "C01" => monitors::c01::run(&args, &mut rep),
            "C02" => monitors::c02::run(&args, &mut rep),
            "C03" => monitors::c03::run(&args, &mut rep),
            "C04" => monitors::c04::run(&args, &mut rep),
            "C05" => monitors::c05::run(&args, &mut rep),
            "C06" => monitors::c06::run(&args, &mut rep),
            "C07" => monitors::c07::run(&args, &mut rep),
            "C08" => monitors::c08::run(&args, &mut rep),
            "C09" => monitors::c09::run(&args, &mut rep),
            "C10" => monitors::c10::run(&args, &mut rep),
            "C11" => monitors::c11::run(&args, &mut rep),
            "C12" => monitors::c12::run(&args, &mut rep),
            "C13" => monitors::c13::run(&args, &mut rep),
            "C14" => monitors::c14::run(&args, &mut rep),
            "C15" => monitors::c15::run(&args, &mut rep),
            "C16" => monitors::c16::run(&args, &mut rep),
            "C17" => monitors::c17::run(&args, &mut rep),
            "C18" => monitors::c18::run(&args, &mut rep),
            "C19" => monitors::c19::run(&args, &mut rep),
            "C20" => monitors::c20::run(&args, &mut rep),
            other => {
                eprintln!("unknown monitor {other}");
                std::process::exit(2)
            }
        }
    }
    rep.add("worker_wall_ms", t0.elapsed().as_millis() as u64);
    rep.write(&args);
}
