pub mod ctx;
pub mod dates;
pub mod expr;
