//! Seeded generator of expressions, as values of the library's public AST types restricted to the
//! shapes the documented grammar can denote. The same value is (1) rendered to concrete syntax by
//! `render.rs` (independent of the library's `Display`), (2) the input of the reference model,
//! (3) the denotation against which the parser's output is compared, (4) the domain of the shrinker.

use crate::rng::Rng;
use chrono::Duration;
use opening_hours_syntax::rules::day::{
    Date, DateOffset, DaySelector, HolidayKind, Month, MonthdayRange, WeekDayOffset, WeekDayRange,
    WeekNum, WeekRange, Weekday, Year, YearRange,
};
use opening_hours_syntax::rules::time::{Time, TimeEvent, TimeSelector, TimeSpan, VariableTime};
use opening_hours_syntax::rules::{OpeningHoursExpression, RuleKind, RuleOperator, RuleSequence};
use opening_hours_syntax::sorted_vec::UniqueSortedVec;
use opening_hours_syntax::ExtendedTime;
use std::sync::Arc;

pub const WEEKDAYS: [Weekday; 7] = [Weekday::Mon, Weekday::Tue, Weekday::Wed, Weekday::Thu, Weekday::Fri, Weekday::Sat, Weekday::Sun];
pub const MONTHS: [Month; 12] = [
    Month::January, Month::February, Month::March, Month::April, Month::May, Month::June,
    Month::July, Month::August, Month::September, Month::October, Month::November, Month::December,
];
pub const EVENTS: [TimeEvent; 4] = [TimeEvent::Dawn, TimeEvent::Sunrise, TimeEvent::Sunset, TimeEvent::Dusk];
pub const YEARS: [u16; 22] = [1900, 1901, 1902, 1999, 2000, 2001, 2019, 2020, 2021, 2022, 2023, 2024, 2025, 2026, 2027, 2028, 2030, 2100, 2400, 9997, 9998, 9999];

#[derive(Clone, Copy, Debug, PartialEq, Eq)]
pub enum SelKind {
    Year,
    Month,
    Date,
    Week,
    Weekday,
    Holiday,
    Time,
}

pub const SEL_KINDS: [SelKind; 7] = [SelKind::Year, SelKind::Month, SelKind::Date, SelKind::Week, SelKind::Weekday, SelKind::Holiday, SelKind::Time];

#[derive(Clone, Debug)]
pub struct GenCfg {
    pub max_rules: usize,
    pub max_entries: usize,
    pub max_spans: usize,
    /// Only plain ranges in every dimension (what normalisation calls canonical), percent of rules.
    pub canonical_pct: u64,
    /// A rule made of exactly one selector of this kind (isolates selector arithmetic), percent.
    pub focus: Option<SelKind>,
    pub focus_pct: u64,
    pub events: bool,
    pub holidays: bool,
    pub comments_pct: u64,
    pub repeats: bool,
    /// Offsets with both a weekday part and a day part, undated start with dated end, ... (shapes
    /// whose meaning no document settles; the C01 oracle abstains on them).
    pub unsettled_shapes: bool,
    /// Bias years / dates towards the bounds 1900 and 9999.
    pub bounds_bias: bool,
    /// Prefer selectors that produce long constant intervals.
    pub long_intervals: bool,
}

impl GenCfg {
    pub fn standard(thorough: bool) -> Self {
        GenCfg {
            max_rules: if thorough { 6 } else { 4 },
            max_entries: if thorough { 4 } else { 3 },
            max_spans: if thorough { 4 } else { 3 },
            canonical_pct: 15,
            focus: None,
            focus_pct: 0,
            events: true,
            holidays: true,
            comments_pct: 25,
            repeats: true,
            unsettled_shapes: true,
            bounds_bias: false,
            long_intervals: false,
        }
    }

    /// Rotate the focus selector with the case index so every kind is exercised alone.
    pub fn rotated(mut self, index: u64) -> Self {
        self.focus = Some(SEL_KINDS[(index % 7) as usize]);
        self.focus_pct = 30;
        self
    }
}

pub fn gen_year(r: &mut Rng, cfg: &GenCfg) -> u16 {
    if cfg.bounds_bias && r.chance(60) {
        *r.pick(&[1900u16, 1900, 1901, 1902, 9997, 9998, 9999, 9999])
    } else if r.chance(85) {
        *r.pick(&YEARS)
    } else {
        r.range(1900, 9999) as u16
    }
}

fn gen_day(r: &mut Rng) -> u8 {
    if r.chance(75) {
        *r.pick(&[1u8, 2, 15, 28, 29, 30, 31])
    } else {
        r.range(1, 31) as u8
    }
}

fn gen_month(r: &mut Rng) -> Month {
    if r.chance(40) {
        *r.pick(&[Month::January, Month::February, Month::December, Month::March])
    } else {
        *r.pick(&MONTHS)
    }
}

pub fn gen_year_range(r: &mut Rng, cfg: &GenCfg, canonical: bool) -> YearRange {
    let a = gen_year(r, cfg);
    let b = gen_year(r, cfg);
    let (lo, hi) = (a.min(b), a.max(b));
    let form = if canonical { r.below(3) } else { r.below(8) };
    let (range, step) = match form {
        0 => (Year(a)..=Year(a), 1),
        1 => (Year(a)..=Year(9999), 1),
        2 => (Year(lo)..=Year(hi), 1),
        3 | 4 => (Year(lo)..=Year(hi), *r.pick(&[2u16, 2, 3, 4, 5, 7, 100, 1000, 65535])),
        5 => (Year(lo)..=Year(lo.saturating_add(r.below(12) as u16).min(9999)), *r.pick(&[1u16, 2, 3, 4])),
        6 => (Year(a)..=Year(a), *r.pick(&[2u16, 3])),
        _ => {
            if lo != hi && r.chance(50) {
                // wrapping range, documented by the suite's `year_selector::wrapping_range`
                (Year(hi)..=Year(lo), if cfg.unsettled_shapes && r.chance(20) { 2 } else { 1 })
            } else {
                (Year(lo)..=Year(hi), 1)
            }
        }
    };
    YearRange { range, step }
}

pub fn gen_date_offset(r: &mut Rng, cfg: &GenCfg) -> DateOffset {
    let mut o = DateOffset::default();
    let both = cfg.unsettled_shapes && r.chance(10);
    let which = r.below(100);
    if which < 14 || both {
        let wd = *r.pick(&WEEKDAYS);
        o.wday_offset = if r.chance(50) { WeekDayOffset::Next(wd) } else { WeekDayOffset::Prev(wd) };
    }
    if (14..30).contains(&which) || both {
        let n = *r.pick(&[1i64, 1, 2, 3, 6, 7, 8, 31, 366]);
        o.day_offset = if r.chance(50) { n } else { -n };
    }
    o
}

pub fn gen_date(r: &mut Rng, cfg: &GenCfg, year: Option<u16>) -> Date {
    if r.chance(12) {
        Date::Easter { year }
    } else {
        Date::Fixed { year, month: gen_month(r), day: gen_day(r) }
    }
}

pub fn gen_monthday(r: &mut Rng, cfg: &GenCfg, canonical: bool, want: Option<SelKind>, allow_dated: bool) -> MonthdayRange {
    let month_form = match want {
        Some(SelKind::Month) => true,
        Some(SelKind::Date) => false,
        _ => canonical || r.chance(40),
    };
    if month_form {
        let a = gen_month(r);
        let b = if r.chance(45) { a } else { gen_month(r) };
        let year = if canonical || !allow_dated || !r.chance(30) { None } else { Some(gen_year(r, cfg)) };
        return MonthdayRange::Month { range: a..=b, year };
    }
    let dated = allow_dated && r.chance(28);
    let start_year = if dated { Some(gen_year(r, cfg)) } else { None };
    let start = gen_date(r, cfg, start_year);
    let start_off = gen_date_offset(r, cfg);
    match r.below(10) {
        0..=2 => MonthdayRange::Date { start: (start, start_off), end: (start, start_off) },
        3 => {
            // open range "+"
            let end = if start.has_year() { Date::ymd(31, Month::December, 9999) } else { Date::md(31, Month::December) };
            MonthdayRange::Date { start: (start, start_off), end: (end, DateOffset::default()) }
        }
        4 | 5 => {
            // day range inside a month / rolling into the next one ("Jan 5-10", "Jan 28-3")
            if let Date::Fixed { year, month, day } = start {
                let d2 = gen_day(r);
                let (mut y2, mut m2) = (year, month);
                if day > d2 {
                    m2 = month.next();
                    if m2 == Month::January {
                        if let Some(y) = y2.as_mut() {
                            *y = (*y + 1).min(9999);
                        }
                    }
                }
                let end_off = if r.chance(20) { gen_date_offset(r, cfg) } else { DateOffset::default() };
                MonthdayRange::Date { start: (start, start_off), end: (Date::Fixed { year: y2, month: m2, day: d2 }, end_off) }
            } else {
                MonthdayRange::Date { start: (start, start_off), end: (start, start_off) }
            }
        }
        _ => {
            let end_year = match start_year {
                Some(y) => {
                    if r.chance(60) {
                        Some(if r.chance(60) { y } else { gen_year(r, cfg).max(y) })
                    } else {
                        None
                    }
                }
                None => {
                    if cfg.unsettled_shapes && allow_dated && r.chance(5) {
                        Some(gen_year(r, cfg))
                    } else {
                        None
                    }
                }
            };
            let end = gen_date(r, cfg, end_year);
            let end_off = gen_date_offset(r, cfg);
            MonthdayRange::Date { start: (start, start_off), end: (end, end_off) }
        }
    }
}

pub fn gen_week(r: &mut Rng, cfg: &GenCfg, canonical: bool) -> WeekRange {
    let pick = |r: &mut Rng| -> u8 {
        if r.chance(50) {
            *r.pick(&[1u8, 2, 9, 10, 26, 51, 52, 53])
        } else {
            r.range(1, 53) as u8
        }
    };
    let a = pick(r);
    let b = pick(r);
    let (lo, hi) = (a.min(b), a.max(b));
    let form = if canonical { r.below(2) } else { r.below(6) };
    let (range, step) = match form {
        0 => (WeekNum(a)..=WeekNum(a), 1),
        1 => (WeekNum(lo)..=WeekNum(hi), 1),
        2 | 3 => (WeekNum(lo)..=WeekNum(hi), *r.pick(&[2u8, 2, 3, 4, 13, 26, 53, 255])),
        4 => (WeekNum(a)..=WeekNum(a), *r.pick(&[2u8, 3])),
        _ => {
            if lo != hi {
                (WeekNum(hi)..=WeekNum(lo), if cfg.unsettled_shapes && r.chance(20) { 2 } else { 1 })
            } else {
                (WeekNum(lo)..=WeekNum(hi), 1)
            }
        }
    };
    WeekRange { range, step }
}

pub fn gen_weekday_fixed(r: &mut Rng, cfg: &GenCfg, canonical: bool) -> WeekDayRange {
    let _ = cfg;
    let a = *r.pick(&WEEKDAYS);
    let form = if canonical { r.below(2) } else { r.below(6) };
    match form {
        0 => WeekDayRange::Fixed { range: a..=a, offset: 0, nth_from_start: [true; 5], nth_from_end: [true; 5] },
        1 | 2 => {
            let b = *r.pick(&WEEKDAYS);
            WeekDayRange::Fixed { range: a..=b, offset: 0, nth_from_start: [true; 5], nth_from_end: [true; 5] }
        }
        _ => {
            let mut s = [false; 5];
            let mut e = [false; 5];
            let n = 1 + r.below(3);
            for _ in 0..n {
                let k = r.below(5) as usize;
                if r.chance(65) {
                    s[k] = true;
                } else {
                    e[k] = true;
                }
            }
            if r.chance(15) {
                // a positive range such as [2-4]
                let lo = r.below(4) as usize;
                let hi = lo + 1 + r.below((4 - lo) as u64) as usize;
                for k in lo..=hi {
                    s[k] = true;
                }
            }
            let offset = if r.chance(35) {
                let n = *r.pick(&[1i64, 1, 2, 3, 6, 7, 8, 31]);
                if r.chance(50) { n } else { -n }
            } else {
                0
            };
            if offset != 0 && r.chance(8) {
                // every position listed explicitly ("Mo[1-5,-1,-2,-3,-4,-5] +1 day"): the only way
                // to write a plain weekday with a day offset
                s = [true; 5];
                e = [true; 5];
            }
            WeekDayRange::Fixed { range: a..=a, offset, nth_from_start: s, nth_from_end: e }
        }
    }
}

pub fn gen_holiday(r: &mut Rng) -> WeekDayRange {
    if r.chance(30) {
        WeekDayRange::Holiday { kind: HolidayKind::School, offset: 0 }
    } else {
        let offset = if r.chance(35) {
            let n = *r.pick(&[1i64, 1, 2, 3, 7, 31]);
            if r.chance(50) { n } else { -n }
        } else {
            0
        };
        WeekDayRange::Holiday { kind: HolidayKind::Public, offset }
    }
}

pub fn et(h: u8, m: u8) -> ExtendedTime {
    ExtendedTime::new(h, m).unwrap()
}

fn gen_clock(r: &mut Rng, max_hour: u8) -> ExtendedTime {
    if r.chance(40) {
        let opts: &[(u8, u8)] = if max_hour == 24 {
            &[(0, 0), (0, 1), (12, 0), (23, 59), (24, 0), (6, 0), (7, 0), (19, 0), (20, 0)]
        } else {
            &[(0, 0), (0, 1), (12, 0), (23, 59), (24, 0), (24, 1), (47, 59), (48, 0), (26, 0), (6, 0), (20, 0)]
        };
        let (h, m) = *r.pick(opts);
        et(h, m)
    } else {
        let h = r.range(0, max_hour as i64) as u8;
        let m = if h == max_hour { 0 } else { *r.pick(&[0u8, 0, 0, 30, 15, 45, 59, 1]) };
        et(h, m)
    }
}

fn gen_variable(r: &mut Rng) -> VariableTime {
    let event = *r.pick(&EVENTS);
    let offset = if r.chance(40) {
        let n = *r.pick(&[1i16, 30, 60, 90, 120, 359, 360, 361, 600, 1439, 1440]);
        if r.chance(50) { n } else { -n }
    } else {
        0
    };
    VariableTime { event, offset }
}

pub fn gen_timespan(r: &mut Rng, cfg: &GenCfg, canonical: bool) -> TimeSpan {
    if canonical {
        // fixed, start < end <= 24:00, no open end, no repeats
        loop {
            let a = gen_clock(r, 24);
            let b = gen_clock(r, 24);
            if a < b {
                return TimeSpan::fixed_range(a, b);
            }
        }
    }
    let start = if cfg.events && r.chance(12) { Time::Variable(gen_variable(r)) } else { Time::Fixed(gen_clock(r, 24)) };
    match r.below(12) {
        0 => TimeSpan { range: start..Time::Fixed(ExtendedTime::MIDNIGHT_24), open_end: true, repeats: None },
        1 => {
            let end = if cfg.events && r.chance(20) { Time::Variable(gen_variable(r)) } else { Time::Fixed(gen_clock(r, 48)) };
            TimeSpan { range: start..end, open_end: true, repeats: None }
        }
        2 if cfg.repeats => {
            let end = Time::Fixed(gen_clock(r, 48));
            let rep = match r.below(4) {
                0 => Duration::minutes(*r.pick(&[1, 5, 15, 30, 45, 59])),
                1 => Duration::minutes(*r.pick(&[60, 90, 120, 150, 601, 1439])),
                2 => Duration::hours(24),
                _ => Duration::minutes(r.range(1, 23 * 60 + 59)),
            };
            TimeSpan { range: start..end, open_end: false, repeats: Some(rep) }
        }
        _ => {
            let end = if cfg.events && r.chance(12) { Time::Variable(gen_variable(r)) } else { Time::Fixed(gen_clock(r, 48)) };
            TimeSpan { range: start..end, open_end: false, repeats: None }
        }
    }
}

// (the grammar allows any character but '"' in a comment: a backslash, a tab, a decomposed accent
// (combining mark), a zero-width space, an apostrophe, CJK and an emoji are part of the pool)
pub const COMMENT_POOL: [&str; 30] = [
    "c", "x", "by appointment", "a, b", "b", "a", "on call", "Ring the bell", "été", "x, y", "  spaced ", "closed for lunch; really",
    "back\\slash", "tab\there", "ferme\u{301}", "zero\u{200b}width", "l'été", "営業中", "open 🙂", "\\",
    // typographic look-alikes of syntax characters: en / em dash, minus, no-break space, full-width
    // colon and digits, curly quotes, a comma without a space, two comments that join to a third
    "8\u{2013}10 only", "a\u{2014}b", "\u{2212}5", "no\u{a0}break", "10\u{ff1a}00\u{ff0d}\u{ff11}\u{ff12}", "\u{201c}quoted\u{201d}", "a,b", "b, a", "a, b, c", "Mo-Fr 10:00-12:00",
];

pub fn gen_comments(r: &mut Rng, cfg: &GenCfg, allow_two: bool) -> UniqueSortedVec<Arc<str>> {
    if !r.chance(cfg.comments_pct) {
        return UniqueSortedVec::new();
    }
    let n = if allow_two && r.chance(35) { 2 } else { 1 };
    let v: Vec<Arc<str>> = (0..n).map(|_| Arc::from(*r.pick(&COMMENT_POOL))).collect();
    v.into()
}

pub fn gen_rule(r: &mut Rng, cfg: &GenCfg, first: bool) -> RuleSequence {
    let canonical = r.chance(cfg.canonical_pct);
    let mut ds = DaySelector::default();
    let mut ts = TimeSelector::default();
    let n_entries = |r: &mut Rng| 1 + if r.chance(70) { 0 } else { r.below(cfg.max_entries as u64) as usize };

    let focus = if r.chance(cfg.focus_pct) { cfg.focus } else { None };
    let constant = focus.is_none() && r.chance(7);
    if !constant {
        let p = |r: &mut Rng, kind: SelKind, pct: u64| -> bool {
            match focus {
                Some(f) => f == kind || (f == SelKind::Month && kind == SelKind::Date && false),
                None => r.chance(pct),
            }
        };
        let (py, pm, pw, pd, pt) = if cfg.long_intervals { (45, 45, 25, 25, 35) } else { (18, 35, 14, 42, 62) };
        if p(r, SelKind::Year, py) {
            for _ in 0..n_entries(r) {
                ds.year.push(gen_year_range(r, cfg, canonical));
            }
        }
        let want_md = match focus {
            Some(SelKind::Month) => Some(SelKind::Month),
            Some(SelKind::Date) => Some(SelKind::Date),
            Some(_) => None,
            None => {
                if r.chance(pm) {
                    Some(SelKind::Time) // any
                } else {
                    None
                }
            }
        };
        if let Some(w) = want_md {
            let want = if w == SelKind::Time { None } else { Some(w) };
            for _ in 0..n_entries(r) {
                // after a year selector, dated month/date entries would run into its digits
                let allow_dated = ds.year.is_empty();
                ds.monthday.push(gen_monthday(r, cfg, canonical, want, allow_dated));
            }
        }
        if p(r, SelKind::Week, pw) {
            for _ in 0..n_entries(r) {
                ds.week.push(gen_week(r, cfg, canonical));
            }
        }
        let want_wd = match focus {
            Some(SelKind::Weekday) => (true, false),
            Some(SelKind::Holiday) => (false, true),
            Some(_) => (false, false),
            None => {
                if r.chance(pd) {
                    let hol = cfg.holidays && !canonical && r.chance(30);
                    (!hol || r.chance(50), hol)
                } else {
                    (false, false)
                }
            }
        };
        let mut fixed = Vec::new();
        let mut hols = Vec::new();
        if want_wd.0 {
            for _ in 0..n_entries(r) {
                fixed.push(gen_weekday_fixed(r, cfg, canonical));
            }
        }
        if want_wd.1 {
            for _ in 0..(1 + r.below(2)) {
                hols.push(gen_holiday(r));
            }
        }
        if r.chance(50) {
            ds.weekday.extend(fixed);
            ds.weekday.extend(hols);
        } else {
            ds.weekday.extend(hols);
            ds.weekday.extend(fixed);
        }
        let want_time = match focus {
            Some(SelKind::Time) => true,
            Some(_) => false,
            None => r.chance(pt) || ds.is_empty(),
        };
        if want_time {
            let n = 1 + if r.chance(65) { 0 } else { r.below(cfg.max_spans as u64) as usize };
            ts = TimeSelector { time: (0..n).map(|_| gen_timespan(r, cfg, canonical)).collect() };
        }
    }
    let kind = match r.below(10) {
        0..=5 => RuleKind::Open,
        6 | 7 => RuleKind::Closed,
        _ => RuleKind::Unknown,
    };
    let operator = if first {
        RuleOperator::Normal
    } else {
        match r.below(10) {
            0..=4 => RuleOperator::Normal,
            5..=7 => RuleOperator::Additional,
            _ => RuleOperator::Fallback,
        }
    };
    // Two comments need the `"comment":` prefix form, which the grammar only allows without
    // year / month / week selectors and not with `24/7`.
    let allow_two = ds.year.is_empty() && ds.monthday.is_empty() && ds.week.is_empty();
    let comments = gen_comments(r, cfg, allow_two);
    RuleSequence { day_selector: ds, time_selector: ts, kind, operator, comments }
}

pub fn gen_expr(r: &mut Rng, cfg: &GenCfg) -> OpeningHoursExpression {
    let n = 1 + match r.below(10) {
        0..=3 => 0,
        4..=6 => 1,
        _ => r.below(cfg.max_rules as u64) as usize,
    };
    // a few long expressions (5..9 rules) whatever the configured bound: some code only matters
    // when many rules interact (normalization paving, rule combination order)
    let n = if cfg.max_rules >= 3 && r.chance(3) { 5 + r.below(5) as usize } else { n.min(cfg.max_rules) };
    let mut rules: Vec<RuleSequence> = (0..n).map(|i| gen_rule(r, cfg, i == 0)).collect();
    for rule in rules.iter_mut().skip(1) {
        // ", easter" after a month/date selector is read by the grammar as one more entry of that
        // selector (the Easter token may start with a space): no spelling denotes a new rule there
        if rule.operator == RuleOperator::Additional
            && rule.day_selector.year.is_empty()
            && matches!(rule.day_selector.monthday.first(), Some(MonthdayRange::Date { start: (Date::Easter { year: None }, _), .. }))
        {
            rule.operator = RuleOperator::Normal;
        }
    }
    OpeningHoursExpression { rules }
}

// -- descriptions used for coverage tables

pub fn rule_selector_kinds(rule: &RuleSequence) -> Vec<SelKind> {
    let mut v = Vec::new();
    let ds = &rule.day_selector;
    if !ds.year.is_empty() {
        v.push(SelKind::Year);
    }
    if ds.monthday.iter().any(|m| matches!(m, MonthdayRange::Month { .. })) {
        v.push(SelKind::Month);
    }
    if ds.monthday.iter().any(|m| matches!(m, MonthdayRange::Date { .. })) {
        v.push(SelKind::Date);
    }
    if !ds.week.is_empty() {
        v.push(SelKind::Week);
    }
    if ds.weekday.iter().any(|m| matches!(m, WeekDayRange::Fixed { .. })) {
        v.push(SelKind::Weekday);
    }
    if ds.weekday.iter().any(|m| matches!(m, WeekDayRange::Holiday { .. })) {
        v.push(SelKind::Holiday);
    }
    if rule.time_selector != TimeSelector::default() {
        v.push(SelKind::Time);
    }
    v
}

pub fn sel_name(k: SelKind) -> &'static str {
    match k {
        SelKind::Year => "year",
        SelKind::Month => "month",
        SelKind::Date => "date",
        SelKind::Week => "week",
        SelKind::Weekday => "weekday",
        SelKind::Holiday => "holiday",
        SelKind::Time => "time",
    }
}

/// True if the expression has at least one selector other than `24/7`.
pub fn has_selector(e: &OpeningHoursExpression) -> bool {
    e.rules.iter().any(|r| !rule_selector_kinds(r).is_empty())
}
