//! Boundary-biased days and instants, derived from the expression under test.

use crate::model;
use crate::rng::Rng;
use chrono::{Datelike, Duration, NaiveDate, NaiveDateTime, NaiveTime, Weekday};
use compact_calendar::CompactCalendar;
use opening_hours_syntax::rules::day::{Date, MonthdayRange, WeekDayRange};
use opening_hours_syntax::rules::time::Time;
use opening_hours_syntax::rules::OpeningHoursExpression;

pub fn ymd(y: i32, m: u32, d: u32) -> NaiveDate {
    NaiveDate::from_ymd_opt(y, m, d).unwrap()
}

pub fn min_day() -> NaiveDate {
    ymd(1900, 1, 1)
}

pub fn max_day() -> NaiveDate {
    ymd(9999, 12, 31)
}

pub fn in_range(d: NaiveDate) -> bool {
    d >= min_day() && d <= max_day()
}

pub const DEFAULT_YEARS: [i32; 14] = [1900, 1901, 1999, 2000, 2020, 2021, 2023, 2024, 2025, 2026, 2027, 2028, 9998, 9999];

/// Years named by the expression (selectors and dated ranges), plus neighbours.
pub fn years_of(e: &OpeningHoursExpression) -> Vec<i32> {
    let mut ys = Vec::new();
    for r in &e.rules {
        for y in &r.day_selector.year {
            let (a, b, st) = (**y.range.start() as i32, **y.range.end() as i32, y.step as i32);
            ys.extend([a - 1, a, a + 1, b - 1, b, b + 1]);
            if st > 1 && st < 5000 {
                ys.extend([a + st - 1, a + st, a + st + 1, a + 2 * st]);
                if b >= a {
                    ys.push(b - (b - a) % st);
                    ys.push(b - (b - a) % st + 1);
                }
            }
        }
        for m in &r.day_selector.monthday {
            match m {
                MonthdayRange::Month { year: Some(y), .. } => ys.extend([*y as i32 - 1, *y as i32, *y as i32 + 1]),
                MonthdayRange::Date { start, end } => {
                    for d in [start.0, end.0] {
                        let y = match d {
                            Date::Fixed { year, .. } => year,
                            Date::Easter { year } => year,
                        };
                        if let Some(y) = y {
                            ys.extend([y as i32 - 1, y as i32, y as i32 + 1]);
                        }
                    }
                }
                _ => {}
            }
        }
    }
    ys.retain(|y| (1900..=9999).contains(y));
    ys.sort();
    ys.dedup();
    ys
}

/// Days at which the expression's selectors could change their answer, +-2 days.
pub fn interesting_days(e: &OpeningHoursExpression, public: &CompactCalendar, school: &CompactCalendar, r: &mut Rng, max: usize) -> Vec<NaiveDate> {
    let mut years = years_of(e);
    for _ in 0..3 {
        years.push(*r.pick(&DEFAULT_YEARS));
    }
    years.push(2024);
    years.sort();
    years.dedup();
    if years.len() > 8 {
        r.shuffle(&mut years);
        years.truncate(8);
    }
    let mut base: Vec<NaiveDate> = Vec::new();
    for &y in &years {
        base.push(ymd(y, 1, 1));
        base.push(ymd(y, 12, 31));
        base.push(ymd(y, 2, 28));
        base.push(ymd(y, 3, 1));
        base.push(model::easter(y));
    }
    let mut uses_holidays = false;
    let mut offsets: Vec<i64> = vec![0];
    for rule in &e.rules {
        let ds = &rule.day_selector;
        for m in &ds.monthday {
            match m {
                MonthdayRange::Month { range, .. } => {
                    for &y in &years {
                        for mm in [*range.start() as u32, *range.end() as u32] {
                            base.push(ymd(y, mm, 1));
                            base.push(ymd(y, mm, model::days_in_month(y, mm)));
                        }
                    }
                }
                MonthdayRange::Date { start, end } => {
                    for (d, off) in [start, end] {
                        for &y in &years {
                            let nominal = match d {
                                Date::Easter { .. } => model::easter(y),
                                Date::Fixed { month, day, .. } => {
                                    let mm = *month as u32;
                                    let dd = (*day as u32).min(model::days_in_month(y, mm));
                                    ymd(y, mm, dd)
                                }
                            };
                            base.push(nominal);
                            base.push(model::apply_offset(nominal, off));
                        }
                    }
                }
            }
        }
        for w in &ds.week {
            for &y in &years {
                for wk in [**w.range.start() as u32, **w.range.end() as u32, 1, 52, 53] {
                    if let Some(d) = NaiveDate::from_isoywd_opt(y, wk, Weekday::Mon) {
                        base.push(d);
                        base.push(d + Duration::days(6));
                    }
                }
            }
        }
        for w in &ds.weekday {
            match w {
                WeekDayRange::Holiday { offset, .. } => {
                    uses_holidays = true;
                    offsets.push(*offset);
                }
                WeekDayRange::Fixed { offset, nth_from_start, .. } => {
                    offsets.push(*offset);
                    if nth_from_start.contains(&false) {
                        for &y in &years {
                            let m = 1 + r.below(12) as u32;
                            base.push(ymd(y, m, 1));
                            base.push(ymd(y, m, model::days_in_month(y, m)));
                            base.push(ymd(y, m, 7));
                            base.push(ymd(y, m, 8));
                            base.push(ymd(y, m, 22));
                            base.push(ymd(y, m, 25));
                        }
                    }
                }
            }
        }
    }
    if uses_holidays {
        let mut hols: Vec<NaiveDate> = public.iter().chain(school.iter()).collect();
        if hols.len() > 40 {
            r.shuffle(&mut hols);
            hols.truncate(40);
        }
        for h in hols {
            for o in &offsets {
                base.push(h + Duration::days(*o));
            }
        }
    }
    let mut out = Vec::new();
    for b in base {
        for k in -2..=2 {
            let d = b + Duration::days(k);
            if in_range(d) {
                out.push(d);
            }
        }
        for o in &offsets {
            if *o != 0 {
                let d = b + Duration::days(*o);
                if in_range(d) {
                    out.push(d);
                }
            }
        }
    }
    out.sort();
    out.dedup();
    if out.len() > max {
        r.shuffle(&mut out);
        out.truncate(max);
        out.sort();
    }
    out
}

pub fn random_day(r: &mut Rng, e_years: &[i32]) -> NaiveDate {
    match r.below(10) {
        0..=3 => {
            let y = *r.pick(&[2019, 2020, 2021, 2022, 2023, 2024, 2025, 2026, 2027, 2028, 2029, 2030]);
            NaiveDate::from_yo_opt(y, 1 + r.below(365) as u32).unwrap()
        }
        4 | 5 if !e_years.is_empty() => {
            let y = *r.pick(e_years);
            NaiveDate::from_yo_opt(y, 1 + r.below(365) as u32).unwrap()
        }
        6 => {
            let y = *r.pick(&[1900, 1901, 9998, 9999]);
            NaiveDate::from_yo_opt(y, 1 + r.below(365) as u32).unwrap()
        }
        _ => min_day() + Duration::days(r.below(((max_day() - min_day()).num_days() + 1) as u64) as i64),
    }
}

/// Minutes of the day at which the expression's spans begin or end (mod 24h), +-1.
pub fn interesting_minutes(e: &OpeningHoursExpression) -> Vec<u32> {
    let mut v = vec![0u32, 1, 719, 720, 1439];
    for r in &e.rules {
        for sp in &r.time_selector.time {
            for t in [&sp.range.start, &sp.range.end] {
                let m = match t {
                    Time::Fixed(_) | Time::Variable(_) => model::time_minutes(t),
                };
                for k in [-1i32, 0, 1] {
                    v.push((m + k).rem_euclid(1440) as u32);
                }
            }
        }
    }
    v.sort();
    v.dedup();
    v
}

pub fn random_time(r: &mut Rng, minutes: &[u32], sub_minute: bool) -> NaiveTime {
    let m = if r.chance(60) && !minutes.is_empty() { *r.pick(minutes) } else { r.below(1440) as u32 };
    let (s, ns) = if sub_minute && r.chance(35) {
        let s = *r.pick(&[0u32, 1, 30, 59]);
        // second 59 also in chrono's leap-second form (nanoseconds >= 1e9): still the clock minute hh:mm
        let ns = if s == 59 && r.chance(30) { *r.pick(&[1_000_000_000u32, 1_500_000_000, 1_999_999_999]) } else { *r.pick(&[0u32, 1, 500_000_000, 999_999_999]) };
        (s, ns)
    } else {
        (0, 0)
    };
    NaiveTime::from_hms_nano_opt(m / 60, m % 60, s, ns).unwrap()
}

pub fn dt(d: NaiveDate, minute_of_day: u32) -> NaiveDateTime {
    d.and_hms_opt(minute_of_day / 60, minute_of_day % 60, 0).unwrap()
}

#[allow(dead_code)]
pub fn year_of(d: NaiveDate) -> i32 {
    d.year()
}
