//! Evaluation contexts: holiday calendars (none / embedded countries / synthetic), described by a
//! small serialisable spec so that a replay can rebuild them.

use crate::rng::Rng;
use chrono::{Datelike, Duration, NaiveDate};
use compact_calendar::CompactCalendar;
use opening_hours::localization::Country;
use opening_hours::{Context, ContextHolidays};
use std::sync::Arc;

#[derive(Clone, Debug, PartialEq)]
pub enum HolSpec {
    None,
    Country(String),
    /// deterministic synthetic calendars, by name
    Synthetic(String),
}

impl HolSpec {
    pub fn to_string(&self) -> String {
        match self {
            HolSpec::None => "none".into(),
            HolSpec::Country(c) => format!("country:{c}"),
            HolSpec::Synthetic(s) => format!("synthetic:{s}"),
        }
    }

    pub fn parse(s: &str) -> HolSpec {
        if let Some(c) = s.strip_prefix("country:") {
            HolSpec::Country(c.to_string())
        } else if let Some(c) = s.strip_prefix("synthetic:") {
            HolSpec::Synthetic(c.to_string())
        } else {
            HolSpec::None
        }
    }

    pub fn build(&self) -> ContextHolidays {
        match self {
            HolSpec::None => ContextHolidays::default(),
            HolSpec::Country(c) => c.parse::<Country>().map(|c| c.holidays()).unwrap_or_default(),
            HolSpec::Synthetic(name) => {
                let (p, s) = synthetic(name);
                ContextHolidays::new(Arc::new(p), Arc::new(s))
            }
        }
    }

    pub fn context(&self) -> Context {
        Context::default().with_holidays(self.build())
    }
}

// NOTE: a CompactCalendar stores one entry per year between its first and last date and
// `first_after` walks them one by one, so calendars spanning thousands of years make every hint
// of a holiday selector cost thousands of steps. The synthetic calendars therefore stay within
// ~150 years each; both ends of the supported range get their own calendar.
pub const SYNTHETIC: [&str; 8] = ["sparse", "dense", "runs", "edges_low", "edges_high", "far_low", "far_high", "one"];
pub const COUNTRIES: [&str; 12] = ["FR", "US", "DE", "JP", "GB", "DK", "GL", "IE", "MX", "NL", "BR", "AU"];

fn d(y: i32, m: u32, dd: u32) -> Option<NaiveDate> {
    NaiveDate::from_ymd_opt(y, m, dd)
}

fn synthetic(name: &str) -> (CompactCalendar, CompactCalendar) {
    let mut p = CompactCalendar::default();
    let mut s = CompactCalendar::default();
    match name {
        "sparse" => {
            for y in [1999, 2000, 2020, 2021, 2024, 2025, 2026] {
                for (m, dd) in [(1, 1), (2, 29), (5, 1), (7, 14), (12, 25), (12, 31)] {
                    if let Some(x) = d(y, m, dd) {
                        p.insert(x);
                    }
                }
            }
            for y in [2020, 2024, 2025] {
                let mut x = d(y, 7, 6).unwrap();
                while x <= d(y, 8, 31).unwrap() {
                    s.insert(x);
                    x = x.succ_opt().unwrap();
                }
            }
        }
        "dense" => {
            // every third day of 2019..2027
            let mut x = d(2019, 1, 1).unwrap();
            let mut i = 0;
            while x.year() <= 2027 {
                if i % 3 == 0 {
                    p.insert(x);
                }
                if i % 5 < 2 {
                    s.insert(x);
                }
                i += 1;
                x = x.succ_opt().unwrap();
            }
        }
        "runs" => {
            for y in 2018..=2030 {
                for start in [d(y, 12, 24).unwrap(), d(y, 2, 26).unwrap(), d(y, 4, 28).unwrap()] {
                    for k in 0..10 {
                        p.insert(start + Duration::days(k));
                        if k % 2 == 0 {
                            s.insert(start + Duration::days(k + 3));
                        }
                    }
                }
            }
        }
        "edges_low" | "edges_high" => {
            let years: &[i32] = if name == "edges_low" { &[1900, 1901, 2000, 2024] } else { &[9997, 9998, 9999] };
            for &y in years {
                for (m, dd) in [(1, 1), (1, 2), (12, 30), (12, 31), (2, 28), (2, 29), (3, 1)] {
                    if let Some(x) = d(y, m, dd) {
                        p.insert(x);
                        s.insert(x);
                    }
                }
            }
        }
        "far_low" => {
            // dates before the supported range 1900..9999 and a few inside
            for (y, m, dd) in [(1899, 12, 31), (1899, 12, 25), (1850, 7, 4), (1900, 1, 1), (1900, 1, 2), (1901, 5, 1)] {
                p.insert(d(y, m, dd).unwrap());
            }
            s.insert(d(1899, 12, 31).unwrap());
            s.insert(d(1900, 1, 1).unwrap());
        }
        "far_high" => {
            for (y, m, dd) in [(10000, 1, 1), (10000, 1, 2), (10050, 7, 4), (9999, 12, 31), (9999, 12, 30), (9998, 5, 1)] {
                p.insert(d(y, m, dd).unwrap());
            }
            s.insert(d(9999, 12, 31).unwrap());
            s.insert(d(10000, 1, 1).unwrap());
        }
        _ => {
            p.insert(d(2024, 2, 29).unwrap());
            s.insert(d(2024, 12, 31).unwrap());
        }
    }
    (p, s)
}

pub fn gen_holspec(r: &mut Rng) -> HolSpec {
    match r.below(10) {
        0..=2 => HolSpec::None,
        3..=6 => HolSpec::Synthetic(r.pick(&SYNTHETIC).to_string()),
        7 | 8 => HolSpec::Country(r.pick(&COUNTRIES).to_string()),
        _ => HolSpec::Country(Country::ALL[r.below(Country::ALL.len() as u64) as usize].iso_code().to_string()),
    }
}

/// A holspec adapted to the expression: only matters when it has holiday selectors.
pub fn gen_holspec_for(r: &mut Rng, has_holiday_selector: bool) -> HolSpec {
    if has_holiday_selector {
        loop {
            let h = gen_holspec(r);
            if h != HolSpec::None || r.chance(15) {
                return h;
            }
        }
    } else if r.chance(85) {
        HolSpec::None
    } else {
        gen_holspec(r)
    }
}
