//! Trigger predicates named by /verif/known_findings.json. A trigger is a narrow structural
//! predicate over the expression describing the shape that a listed (unrepaired) defect needs.
//! Only the triggers passed with `--known` (i.e. listed as open in the file) are honoured.

use opening_hours_syntax::rules::time::{Time, TimeSelector};
use opening_hours_syntax::rules::{OpeningHoursExpression, RuleKind, RuleOperator, RuleSequence};

use crate::model;

fn span_passes_midnight(r: &RuleSequence) -> bool {
    r.time_selector.time.iter().any(|sp| {
        // any span involving an event may pass midnight depending on the date; fixed spans do
        // when their end is beyond 24:00 or not after their start
        let variable = matches!(sp.range.start, Time::Variable(_)) || matches!(sp.range.end, Time::Variable(_));
        let (s, e) = model::span_minutes(sp);
        variable || e > 1440 || e <= s
    })
}

/// D11: normalisation drops a comment-less `closed` rule (a closed cell without comment is the
/// paving's default value), whereas in evaluation the schedule that rule produces for a day hides
/// the spill-over past midnight of a *later* rule on days that later rule does not match.
fn commentless_closed_before_midnight_span(e: &OpeningHoursExpression) -> bool {
    for (i, r) in e.rules.iter().enumerate() {
        let closed_no_comment = r.kind == RuleKind::Closed && r.comments.is_empty() && r.operator != RuleOperator::Fallback;
        if closed_no_comment && e.rules[i + 1..].iter().any(span_passes_midnight) {
            return true;
        }
    }
    false
}

pub fn trigger(name: &str, e: &OpeningHoursExpression) -> bool {
    match name {
        "commentless_closed_before_midnight_span" => commentless_closed_before_midnight_span(e),
        _ => false,
    }
}

/// The first active trigger that explains the expression, if any.
pub fn explained_by(active: &[String], e: &OpeningHoursExpression) -> Option<String> {
    active.iter().find(|t| trigger(t, e)).cloned()
}

pub enum Classified {
    /// a failing case no listed trigger explains (reduced)
    Unexplained(OpeningHoursExpression),
    /// every failing reduction is explained by this trigger
    Explained(OpeningHoursExpression, String),
}

/// Shrink with the objective "still fails AND matches no listed trigger".
pub fn classify(
    active: &[String],
    e: &OpeningHoursExpression,
    valid: &dyn Fn(&OpeningHoursExpression) -> bool,
    fails: &mut dyn FnMut(&OpeningHoursExpression) -> bool,
    budget: usize,
) -> Classified {
    let mut budget = budget;
    let mut cur = e.clone();
    if explained_by(active, &cur).is_none() {
        // objective: still fails AND matches no listed trigger
        let mut pred = |x: &OpeningHoursExpression| explained_by(active, x).is_none() && fails(x);
        return Classified::Unexplained(crate::shrink::shrink(&cur, valid, &mut pred, budget));
    }
    loop {
        let cands: Vec<_> = crate::shrink::candidates(&cur).into_iter().filter(|c| valid(c)).collect();
        let mut next_explained = None;
        let mut found_unexplained = None;
        for c in cands {
            if budget == 0 {
                break;
            }
            budget -= 1;
            if !fails(&c) {
                continue;
            }
            if explained_by(active, &c).is_none() {
                found_unexplained = Some(c);
                break;
            } else if next_explained.is_none() {
                next_explained = Some(c);
            }
        }
        if let Some(c) = found_unexplained {
            let mut pred = |x: &OpeningHoursExpression| explained_by(active, x).is_none() && fails(x);
            return Classified::Unexplained(crate::shrink::shrink(&c, valid, &mut pred, budget.max(50)));
        }
        match next_explained {
            Some(c) if budget > 0 => cur = c,
            _ => {
                let t = explained_by(active, &cur).unwrap_or_default();
                return Classified::Explained(cur, t);
            }
        }
    }
}
