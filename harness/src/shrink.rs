//! Delta-debugging over the harness AST: greedy one-step reductions while a predicate holds.

use opening_hours_syntax::rules::day::{DateOffset, MonthdayRange, WeekDayRange};
use opening_hours_syntax::rules::time::{Time, TimeSelector};
use opening_hours_syntax::rules::{OpeningHoursExpression, RuleKind, RuleOperator};
use opening_hours_syntax::sorted_vec::UniqueSortedVec;

/// All one-step reductions of an expression.
pub fn candidates(e: &OpeningHoursExpression) -> Vec<OpeningHoursExpression> {
    let mut out = Vec::new();
    let n = e.rules.len();
    // drop a rule
    if n > 1 {
        for i in 0..n {
            let mut c = e.clone();
            c.rules.remove(i);
            c.rules[0].operator = RuleOperator::Normal;
            out.push(c);
        }
    }
    for i in 0..n {
        let r = &e.rules[i];
        let mut push = |f: &dyn Fn(&mut opening_hours_syntax::rules::RuleSequence)| {
            let mut c = e.clone();
            f(&mut c.rules[i]);
            if c.rules[i] != e.rules[i] {
                out.push(c);
            }
        };
        push(&|r| r.day_selector.year.clear());
        push(&|r| r.day_selector.monthday.clear());
        push(&|r| r.day_selector.week.clear());
        push(&|r| r.day_selector.weekday.clear());
        push(&|r| r.time_selector = TimeSelector::default());
        push(&|r| r.comments = UniqueSortedVec::new());
        push(&|r| r.kind = RuleKind::Open);
        if i > 0 {
            push(&|r| r.operator = RuleOperator::Normal);
        }
        for k in 0..r.day_selector.year.len() {
            push(&|r| {
                if r.day_selector.year.len() > 1 {
                    r.day_selector.year.remove(k);
                }
            });
            push(&|r| r.day_selector.year[k].step = 1);
        }
        for k in 0..r.day_selector.monthday.len() {
            push(&|r| {
                if r.day_selector.monthday.len() > 1 {
                    r.day_selector.monthday.remove(k);
                }
            });
            push(&|r| {
                if let MonthdayRange::Date { start, end } = &mut r.day_selector.monthday[k] {
                    let single = start == end;
                    start.1 = DateOffset::default();
                    if single {
                        end.1 = DateOffset::default();
                    }
                }
            });
            push(&|r| {
                if let MonthdayRange::Date { end, .. } = &mut r.day_selector.monthday[k] {
                    end.1 = DateOffset::default();
                }
            });
            push(&|r| {
                if let MonthdayRange::Date { start, end } = &mut r.day_selector.monthday[k] {
                    *end = *start;
                }
            });
            push(&|r| {
                if let MonthdayRange::Month { year, .. } = &mut r.day_selector.monthday[k] {
                    *year = None;
                }
            });
            push(&|r| {
                if let MonthdayRange::Month { range, .. } = &mut r.day_selector.monthday[k] {
                    *range = *range.start()..=*range.start();
                }
            });
        }
        for k in 0..r.day_selector.week.len() {
            push(&|r| {
                if r.day_selector.week.len() > 1 {
                    r.day_selector.week.remove(k);
                }
            });
            push(&|r| r.day_selector.week[k].step = 1);
        }
        for k in 0..r.day_selector.weekday.len() {
            push(&|r| {
                if r.day_selector.weekday.len() > 1 {
                    r.day_selector.weekday.remove(k);
                }
            });
            push(&|r| match &mut r.day_selector.weekday[k] {
                WeekDayRange::Fixed { offset, nth_from_start, nth_from_end, .. } => {
                    *offset = 0;
                    *nth_from_start = [true; 5];
                    *nth_from_end = [true; 5];
                }
                WeekDayRange::Holiday { offset, .. } => *offset = 0,
            });
            push(&|r| {
                if let WeekDayRange::Fixed { offset, .. } = &mut r.day_selector.weekday[k] {
                    *offset = 0;
                }
            });
            push(&|r| {
                if let WeekDayRange::Fixed { range, nth_from_start, nth_from_end, .. } = &mut r.day_selector.weekday[k] {
                    if nth_from_start.iter().all(|x| *x) && nth_from_end.iter().all(|x| *x) {
                        *range = *range.start()..=*range.start();
                    }
                }
            });
        }
        for k in 0..r.time_selector.time.len() {
            push(&|r| {
                if r.time_selector.time.len() > 1 {
                    r.time_selector.time.remove(k);
                }
            });
            push(&|r| r.time_selector.time[k].open_end = false);
            push(&|r| r.time_selector.time[k].repeats = None);
            push(&|r| {
                let sp = &mut r.time_selector.time[k];
                if let Time::Variable(v) = &mut sp.range.start {
                    v.offset = 0;
                }
                if let Time::Variable(v) = &mut sp.range.end {
                    v.offset = 0;
                }
            });
        }
    }
    out
}

/// Greedy shrink: apply any reduction that keeps `still_fails` true and that the grammar can
/// denote faithfully (`valid`), until none applies. `budget` bounds the predicate evaluations.
pub fn shrink(
    e: &OpeningHoursExpression,
    valid: &dyn Fn(&OpeningHoursExpression) -> bool,
    still_fails: &mut dyn FnMut(&OpeningHoursExpression) -> bool,
    mut budget: usize,
) -> OpeningHoursExpression {
    let mut cur = e.clone();
    loop {
        let mut progressed = false;
        for c in candidates(&cur) {
            if budget == 0 {
                return cur;
            }
            if !valid(&c) {
                continue;
            }
            budget -= 1;
            if still_fails(&c) {
                cur = c;
                progressed = true;
                break;
            }
        }
        if !progressed {
            return cur;
        }
    }
}
