//! Executable reference semantics ("documented semantics", DESIGN.md section 5).
//!
//! Pointwise: for a day it answers "does rule r apply?" by direct calendar arithmetic and paints a
//! 1440-entry minute array. No range lists, no hints, no `Schedule`.

use chrono::{Datelike, Duration, NaiveDate, Weekday};
use compact_calendar::CompactCalendar;
use opening_hours_syntax::rules::day::{
    Date, DateOffset, HolidayKind, MonthdayRange, WeekDayOffset, WeekDayRange, WeekRange, YearRange,
};
use opening_hours_syntax::rules::time::{Time, TimeEvent, TimeSpan};
use opening_hours_syntax::rules::{OpeningHoursExpression, RuleKind, RuleOperator, RuleSequence};

pub struct Holidays<'a> {
    pub public: &'a CompactCalendar,
    pub school: &'a CompactCalendar,
}

/// A shape whose meaning no source settles: the oracle does not judge it.
#[derive(Debug, Clone, Copy, PartialEq, Eq)]
pub struct Abstain(pub &'static str);

pub fn easter(y: i32) -> NaiveDate {
    // Anonymous Gregorian algorithm (Meeus/Jones/Butcher), re-implemented
    let a = y.rem_euclid(19);
    let b = y.div_euclid(100);
    let c = y.rem_euclid(100);
    let d = b / 4;
    let e = b % 4;
    let f = (b + 8) / 25;
    let g = (b - f + 1) / 3;
    let h = (19 * a + b - d - g + 15) % 30;
    let i = c / 4;
    let k = c % 4;
    let l = (32 + 2 * e + 2 * i - h - k) % 7;
    let m = (a + 11 * h + 22 * l) / 451;
    let month = (h + l - 7 * m + 114) / 31;
    let day = (h + l - 7 * m + 114) % 31 + 1;
    NaiveDate::from_ymd_opt(y, month as u32, day as u32).unwrap()
}

pub fn days_in_month(y: i32, m: u32) -> u32 {
    match m {
        1 | 3 | 5 | 7 | 8 | 10 | 12 => 31,
        4 | 6 | 9 | 11 => 30,
        _ => {
            if (y % 4 == 0 && y % 100 != 0) || y % 400 == 0 {
                29
            } else {
                28
            }
        }
    }
}

pub fn apply_offset(mut d: NaiveDate, o: &DateOffset) -> NaiveDate {
    d += Duration::days(o.day_offset);
    match o.wday_offset {
        WeekDayOffset::None => {}
        WeekDayOffset::Next(w) => {
            while d.weekday() != w {
                d = d.succ_opt().unwrap();
            }
        }
        WeekDayOffset::Prev(w) => {
            while d.weekday() != w {
                d = d.pred_opt().unwrap();
            }
        }
    }
    d
}

fn date_year(d: &Date) -> Option<u16> {
    match d {
        Date::Fixed { year, .. } => *year,
        Date::Easter { year } => *year,
    }
}

fn undated(d: &Date) -> Date {
    match d {
        Date::Fixed { month, day, .. } => Date::Fixed { year: None, month: *month, day: *day },
        Date::Easter { .. } => Date::Easter { year: None },
    }
}

/// Resolution of an (undated) date in year `y`: (nominal (month, day) key, as a range start,
/// as a range end). A day number that does not exist in the month resolves to the first valid
/// day after it as a start and to the last valid day before it as an end.
fn resolve(date: &Date, y: i32) -> ((u32, u32), NaiveDate, NaiveDate) {
    match date {
        Date::Easter { .. } => {
            let e = easter(y);
            ((e.month(), e.day()), e, e)
        }
        Date::Fixed { month, day, .. } => {
            let m = *month as u32;
            let d = *day as u32;
            let n = days_in_month(y, m);
            if d <= n {
                let x = NaiveDate::from_ymd_opt(y, m, d).unwrap();
                ((m, d), x, x)
            } else {
                let last = NaiveDate::from_ymd_opt(y, m, n).unwrap();
                ((m, d), last.succ_opt().unwrap(), last)
            }
        }
    }
}

fn order_reversed_by_offsets(s: NaiveDate, e: NaiveDate, s2: NaiveDate, e2: NaiveDate) -> bool {
    (s <= e) != (s2 <= e2)
}

pub fn monthday_matches(r: &MonthdayRange, d: NaiveDate) -> Result<bool, Abstain> {
    match r {
        MonthdayRange::Month { range, year } => {
            let (a, b) = (*range.start() as u32, *range.end() as u32);
            let m = d.month();
            match year {
                None => Ok(if a <= b { a <= m && m <= b } else { m >= a || m <= b }),
                Some(y) => {
                    let y = *y as i32;
                    if a <= b {
                        Ok(d.year() == y && a <= m && m <= b)
                    } else {
                        // "2025 Dec-Mar": December 2025 to March 2026
                        Ok((d.year() == y && m >= a) || (d.year() == y + 1 && m <= b))
                    }
                }
            }
        }
        MonthdayRange::Date { start: (sd, so), end: (ed, eo) } => {
            for o in [so, eo] {
                if o.day_offset != 0 && o.wday_offset != WeekDayOffset::None {
                    return Err(Abstain("day offset combined with weekday offset"));
                }
            }
            if date_year(sd).is_none() && date_year(ed).is_some() {
                return Err(Abstain("undated start with dated end"));
            }
            let is_easter = |x: &Date| matches!(x, Date::Easter { .. });
            if let Some(ys) = date_year(sd) {
                // one absolute interval
                let ys = ys as i32;
                let (_, s, _) = resolve(sd, ys);
                let s2 = apply_offset(s, so);
                let e2 = if let Some(ye) = date_year(ed) {
                    let (_, _, e) = resolve(ed, ye as i32);
                    let e2 = apply_offset(e, eo);
                    if e2 < s2 {
                        return Err(Abstain("dated end before dated start"));
                    }
                    e2
                } else {
                    // first resolution of the end on/after the start: in the year of the start or
                    // the following one; offsets that push it further away leave the meaning open
                    let mut found = None;
                    for y in ys..=ys + 1 {
                        let (_, _, e) = resolve(&undated(ed), y);
                        let e2 = apply_offset(e, eo);
                        if e2 >= s2 {
                            found = Some(e2);
                            break;
                        }
                    }
                    let (_, _, e_prev) = resolve(&undated(ed), ys - 1);
                    if apply_offset(e_prev, eo) >= s2 {
                        return Err(Abstain("offsets reverse the order of the range end-points"));
                    }
                    found.ok_or(Abstain("offsets reverse the order of the range end-points"))?
                };
                return Ok(s2 <= d && d <= e2);
            }
            // both undated: one occurrence of the range per year
            let single = sd == ed && so == eo;
            // occurrence of the range that starts in year y: Ok(None) if it does not exist
            let occurrence = |y: i32| -> Result<Option<(NaiveDate, NaiveDate)>, Abstain> {
                let (ks, s, s_as_end) = resolve(sd, y);
                if single {
                    if s != s_as_end {
                        return Ok(None); // the day does not exist this year
                    }
                    let x = apply_offset(s, so);
                    return Ok(Some((x, x)));
                }
                let wraps = if is_easter(sd) || is_easter(ed) {
                    let (_, _, e0) = resolve(ed, y);
                    e0 < s
                } else {
                    let (ke, _, _) = resolve(ed, y);
                    ke < ks
                };
                let (_, _, e) = resolve(ed, if wraps { y + 1 } else { y });
                if !wraps && e < s {
                    return Ok(None); // clamped empty (e.g. Apr 31 - Apr 31 written as a range)
                }
                let (s2, e2) = (apply_offset(s, so), apply_offset(e, eo));
                if order_reversed_by_offsets(s, e, s2, e2) {
                    return Err(Abstain("offsets reverse the order of the range end-points"));
                }
                // whether the range wraps into the next year must not depend on the offsets:
                // compare the same-year end-points before and after applying them
                let (_, _, e_same) = resolve(ed, y);
                if (e_same < s) != (apply_offset(e_same, eo) < s2) {
                    return Err(Abstain("offsets reverse the order of the range end-points"));
                }
                Ok(Some((s2, e2)))
            };
            for y in d.year() - 3..=d.year() + 2 {
                let Some((s2, e2)) = occurrence(y)? else { continue };
                // offsets of about a year make consecutive occurrences overlap; which start then
                // belongs to which end is not settled by any source
                let mut next = None;
                for k in 1..=4 {
                    if let Some(n) = occurrence(y + k)? {
                        next = Some(n);
                        break;
                    }
                }
                if let Some((s3, _)) = next {
                    if s3 <= e2 {
                        return Err(Abstain("yearly occurrences of the range overlap"));
                    }
                }
                if s2 <= d && d <= e2 {
                    return Ok(true);
                }
            }
            Ok(false)
        }
    }
}

fn wd_num(w: Weekday) -> u32 {
    w.num_days_from_monday()
}

pub fn weekday_matches(r: &WeekDayRange, d: NaiveDate, hol: &Holidays) -> Result<bool, Abstain> {
    match r {
        WeekDayRange::Fixed { range, offset, nth_from_start, nth_from_end } => {
            let d2 = d - Duration::days(*offset);
            let (a, b, w) = (wd_num(*range.start()), wd_num(*range.end()), wd_num(d2.weekday()));
            let in_range = if a <= b { a <= w && w <= b } else { w >= a || w <= b };
            let n = days_in_month(d2.year(), d2.month());
            Ok(in_range && (nth_from_start[((d2.day() - 1) / 7) as usize] || nth_from_end[((n - d2.day()) / 7) as usize]))
        }
        WeekDayRange::Holiday { kind, offset } => {
            let cal = match kind {
                HolidayKind::Public => hol.public,
                HolidayKind::School => hol.school,
            };
            Ok(cal.contains(d - Duration::days(*offset)))
        }
    }
}

pub fn year_matches(yr: &YearRange, y: i32) -> Result<bool, Abstain> {
    let (a, b, st) = (**yr.range.start() as i32, **yr.range.end() as i32, yr.step as i32);
    if a > b && st > 1 {
        return Err(Abstain("reversed year range with a step"));
    }
    Ok(if a <= b { a <= y && y <= b && (y - a) % st == 0 } else { y >= a || y <= b })
}

pub fn week_matches(wr: &WeekRange, d: NaiveDate) -> Result<bool, Abstain> {
    let w = d.iso_week().week() as i32;
    let (a, b, st) = (**wr.range.start() as i32, **wr.range.end() as i32, wr.step as i32);
    if a > b && st > 1 {
        return Err(Abstain("reversed week range with a step"));
    }
    Ok(if a <= b { a <= w && w <= b && (w - a) % st == 0 } else { w >= a || w <= b })
}

pub fn applies(r: &RuleSequence, d: NaiveDate, hol: &Holidays) -> Result<bool, Abstain> {
    let s = &r.day_selector;
    let mut ok = s.year.is_empty();
    for yr in &s.year {
        ok |= year_matches(yr, d.year())?;
    }
    if !ok {
        return Ok(false);
    }
    let mut ok = s.monthday.is_empty();
    for m in &s.monthday {
        ok |= monthday_matches(m, d)?;
    }
    if !ok {
        return Ok(false);
    }
    let mut ok = s.week.is_empty();
    for w in &s.week {
        ok |= week_matches(w, d)?;
    }
    if !ok {
        return Ok(false);
    }
    let mut ok = s.weekday.is_empty();
    for wd in &s.weekday {
        ok |= weekday_matches(wd, d, hol)?;
    }
    Ok(ok)
}

/// Check every selector of the expression for abstention shapes (independent of the day).
pub fn abstention(e: &OpeningHoursExpression, hol: &Holidays) -> Option<Abstain> {
    let probe = NaiveDate::from_ymd_opt(2024, 2, 29).unwrap();
    for r in &e.rules {
        for y in &r.day_selector.year {
            if let Err(a) = year_matches(y, 2024) {
                return Some(a);
            }
        }
        for m in &r.day_selector.monthday {
            for d in [probe, NaiveDate::from_ymd_opt(2023, 7, 1).unwrap(), NaiveDate::from_ymd_opt(2021, 12, 31).unwrap()] {
                if let Err(a) = monthday_matches(m, d) {
                    return Some(a);
                }
            }
        }
        for w in &r.day_selector.week {
            if let Err(a) = week_matches(w, probe) {
                return Some(a);
            }
        }
        for w in &r.day_selector.weekday {
            if let Err(a) = weekday_matches(w, probe, hol) {
                return Some(a);
            }
        }
    }
    None
}

pub fn event_minutes(ev: TimeEvent) -> i32 {
    match ev {
        TimeEvent::Dawn => 6 * 60,
        TimeEvent::Sunrise => 7 * 60,
        TimeEvent::Sunset => 19 * 60,
        TimeEvent::Dusk => 20 * 60,
    }
}

/// Minutes since midnight of a time without coordinates (events at their documented defaults).
pub fn time_minutes(t: &Time) -> i32 {
    match t {
        Time::Fixed(x) => x.mins_from_midnight() as i32,
        Time::Variable(v) => {
            let x = event_minutes(v.event) + v.offset as i32;
            if (0..=2880).contains(&x) {
                x
            } else {
                0
            }
        }
    }
}

/// [start, end) in minutes from the midnight starting the day, end possibly beyond 1440.
pub fn span_minutes(sp: &TimeSpan) -> (i32, i32) {
    let s = time_minutes(&sp.range.start);
    let mut e = time_minutes(&sp.range.end);
    // an end that is not after the start is on the following day; an event with an offset can
    // start after 24:00, then the end moves on once more and the span is cut at 48:00
    while e <= s && e < 2880 {
        e += 1440;
    }
    (s, e.min(2880))
}

/// One minute of a day: kind, and which rules painted it (bit i = rule i), last writer first.
#[derive(Clone, Copy, Debug, PartialEq, Eq)]
pub struct Cell {
    pub kind: Option<RuleKind>,
    /// the rule that decided the kind of this minute
    pub by: u8,
}

pub const EMPTY: Cell = Cell { kind: None, by: 0 };

pub struct DayModel {
    pub cells: Vec<Cell>,
    /// Some rule produced a schedule for this day (its own minutes or spill-over).
    pub any_contribution: bool,
    /// How many rules produced minutes today while a later normal rule replaced the day, or a
    /// normal rule's own spill-over yielded to earlier rules (the two resolutions taken from the tree).
    pub spill_conflict: bool,
    /// per rule: the minutes it would paint on this day on its own (own + spill), if it contributes
    pub rule_minutes: Vec<Option<Vec<bool>>>,
    pub applies_today: Vec<bool>,
}

impl DayModel {
    pub fn kinds(&self) -> Vec<RuleKind> {
        self.cells.iter().map(|c| c.kind.unwrap_or(RuleKind::Closed)).collect()
    }
}

fn rule_day(r: &RuleSequence, idx: usize, d: NaiveDate, hol: &Holidays) -> Result<(bool, Option<Vec<Cell>>, bool), Abstain> {
    let today = applies(r, d, hol)?;
    let yesterday = match d.pred_opt() {
        Some(p) => applies(r, p, hol)?,
        None => false,
    };
    if !today && !yesterday {
        return Ok((false, None, false));
    }
    let mut day = vec![EMPTY; 1440];
    let mut spilled = false;
    for sp in &r.time_selector.time {
        let (s, e) = span_minutes(sp);
        if today {
            for m in s.max(0)..e.min(1440) {
                day[m as usize] = Cell { kind: Some(r.kind), by: idx as u8 };
            }
        }
        if yesterday {
            for m in (s - 1440).max(0)..(e - 1440).min(1440) {
                day[m as usize] = Cell { kind: Some(r.kind), by: idx as u8 };
                spilled = true;
            }
        }
    }
    Ok((today, Some(day), spilled))
}

fn overlay(base: &mut [Cell], top: &[Cell]) {
    for i in 0..1440 {
        if top[i].kind.is_some() {
            base[i] = top[i];
        }
    }
}

pub fn model_day(e: &OpeningHoursExpression, d: NaiveDate, hol: &Holidays) -> Result<DayModel, Abstain> {
    let mut matched = false;
    let mut acc: Option<Vec<Cell>> = None;
    let mut spill_conflict = false;
    let mut rule_minutes = Vec::with_capacity(e.rules.len());
    let mut applies_today = Vec::with_capacity(e.rules.len());
    if d.year() < 1900 || d.year() > 9999 {
        return Ok(DayModel { cells: vec![EMPTY; 1440], any_contribution: false, spill_conflict: false, rule_minutes: vec![None; e.rules.len()], applies_today: vec![false; e.rules.len()] });
    }
    for (idx, r) in e.rules.iter().enumerate() {
        let (cm, ce, spilled) = rule_day(r, idx, d, hol)?;
        rule_minutes.push(ce.as_ref().map(|c| c.iter().map(|x| x.kind.is_some()).collect()));
        applies_today.push(cm);
        match (r.operator, r.kind) {
            (RuleOperator::Normal, RuleKind::Open | RuleKind::Unknown) => {
                if cm {
                    if acc.as_ref().map(|a| a.iter().any(|c| c.kind.is_some())).unwrap_or(false) {
                        spill_conflict = true;
                    }
                    acc = ce;
                } else {
                    if acc.is_some() && spilled {
                        spill_conflict = true;
                    }
                    acc = acc.or(ce);
                }
                matched = matched || cm;
            }
            (RuleOperator::Additional, _) | (RuleOperator::Normal, RuleKind::Closed) => {
                matched = matched || cm;
                acc = match (acc, ce) {
                    (Some(mut p), Some(c)) => {
                        overlay(&mut p, &c);
                        Some(p)
                    }
                    (p, c) => p.or(c),
                };
            }
            (RuleOperator::Fallback, _) => {
                let all_closed = acc.as_ref().map(|p| p.iter().all(|x| x.kind.map(|k| k == RuleKind::Closed).unwrap_or(true))).unwrap_or(false);
                if matched && !all_closed {
                    // something else covers the day: the fallback rule is not used
                } else {
                    matched = cm;
                    acc = ce;
                }
            }
        }
    }
    let any = acc.is_some();
    Ok(DayModel { cells: acc.unwrap_or_else(|| vec![EMPTY; 1440]), any_contribution: any, spill_conflict, rule_minutes, applies_today })
}

/// Minute kinds of a day as given by the library's `schedule_at` (the pointwise oracle of C02...).
pub fn impl_day<L: opening_hours::localization::Localize>(oh: &opening_hours::OpeningHours<L>, d: NaiveDate) -> Vec<RuleKind> {
    let mut v = vec![RuleKind::Closed; 1440];
    for tr in oh.schedule_at(d) {
        for m in tr.range.start.mins_from_midnight()..tr.range.end.mins_from_midnight().min(1440) {
            v[m as usize] = tr.kind;
        }
    }
    v
}

pub fn first_diff(a: &[RuleKind], b: &[RuleKind]) -> Option<usize> {
    (0..a.len().min(b.len())).find(|&i| a[i] != b[i])
}

pub fn hm(m: usize) -> String {
    format!("{:02}:{:02}", m / 60, m % 60)
}
