//! Library part of the runtime-monitoring harness (shared by the `ohv` worker binary and the fuzz targets).
#![allow(dead_code, unused_variables, unused_imports)]

pub mod evalcmp;
pub mod gen;
pub mod known;
pub mod model;
pub mod monitors;
pub mod out;
pub mod render;
pub mod rng;
pub mod shrink;
pub mod stream;
