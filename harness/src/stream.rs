//! Shared oracle pieces for the interval stream: collecting intervals (with the iterator's skip
//! log from hook H2), tiling checks, and pointwise comparison against `schedule_at`.

use crate::gen::dates;
use crate::out::guarded;
use crate::rng::Rng;
use chrono::{Duration, NaiveDate, NaiveDateTime, NaiveTime};
use opening_hours::localization::NoLocation;
use opening_hours::verif_hooks as hooks;
use opening_hours::{OpeningHours, RuleKind};
use opening_hours_syntax::rules::OpeningHoursExpression;
use opening_hours_syntax::ExtendedTime;
use std::sync::Arc;

pub type Oh = OpeningHours<NoLocation>;

pub fn date_end() -> NaiveDateTime {
    opening_hours::DATE_END
}

pub fn date_start() -> NaiveDateTime {
    dates::min_day().and_hms_opt(0, 0, 0).unwrap()
}

#[derive(Clone, Debug)]
pub struct Interval {
    pub start: NaiveDateTime,
    pub end: NaiveDateTime,
    pub kind: RuleKind,
    pub comments: Vec<Arc<str>>,
}

pub struct Stream {
    pub intervals: Vec<Interval>,
    /// (from, to): the iterator went from day `from` to day `to` without evaluating the days between
    pub skips: Vec<(NaiveDate, NaiveDate)>,
    /// false if the interval cap was reached before the iterator ended
    pub complete: bool,
    pub day_steps: u64,
    pub schedule_evals: u64,
}

/// Consume `iter_range(from, to)` (at most `cap` intervals), recording skips and step counters.
pub fn collect(oh: &Oh, from: NaiveDateTime, to: NaiveDateTime, cap: usize) -> Result<Stream, String> {
    hooks::record_skips(true);
    hooks::reset_ticks();
    let r = guarded(|| {
        let mut v = Vec::new();
        let mut complete = true;
        let mut it = oh.iter_range(from, to);
        loop {
            if v.len() >= cap {
                complete = false;
                break;
            }
            match it.next() {
                Some(x) => v.push(Interval { start: x.range.start, end: x.range.end, kind: x.kind, comments: x.comments.iter().cloned().collect() }),
                None => break,
            }
        }
        (v, complete)
    });
    let skips = hooks::take_skips();
    hooks::record_skips(false);
    let ticks = hooks::ticks();
    let (intervals, complete) = r?;
    Ok(Stream { intervals, skips, complete, day_steps: ticks[hooks::Site::DayStep as usize], schedule_evals: ticks[hooks::Site::ScheduleAt as usize] })
}

/// Non-empty, increasing, gap-free, covering exactly [from, min(to, 10000-01-01)), alternating kinds.
pub fn check_tiling(s: &Stream, from: NaiveDateTime, to: NaiveDateTime) -> Result<(), String> {
    let end = to.min(date_end());
    if from >= end {
        if !s.intervals.is_empty() {
            return Err(format!("empty window [{from}, {to}) yields {} interval(s), first {:?}", s.intervals.len(), s.intervals[0]));
        }
        return Ok(());
    }
    let Some(first) = s.intervals.first() else {
        return Err(format!("no interval for the non-empty window [{from}, {end})"));
    };
    if first.start != from {
        return Err(format!("first interval starts at {} instead of the requested start {from}", first.start));
    }
    let mut prev: Option<&Interval> = None;
    for iv in &s.intervals {
        if iv.start >= iv.end {
            return Err(format!("empty or inverted interval [{}, {})", iv.start, iv.end));
        }
        if iv.end > end {
            return Err(format!("interval [{}, {}) ends after min(requested end, 10000-01-01) = {end}", iv.start, iv.end));
        }
        if let Some(p) = prev {
            if p.end != iv.start {
                return Err(format!("interval [{}, {}) does not start where the previous one ended ({})", iv.start, iv.end, p.end));
            }
            if p.kind == iv.kind {
                return Err(format!("two consecutive intervals have the same state {}: [{}, {}) and [{}, {})", iv.kind, p.start, p.end, iv.start, iv.end));
            }
        }
        if !iv.comments.windows(2).all(|w| w[0] < w[1]) {
            return Err(format!("comments of [{}, {}) are not sorted and unique: {:?}", iv.start, iv.end, iv.comments));
        }
        prev = Some(iv);
    }
    if s.complete {
        let last = s.intervals.last().unwrap();
        if last.end != end {
            return Err(format!("last interval ends at {} instead of min(requested end, 10000-01-01) = {end}", last.end));
        }
    }
    Ok(())
}

fn et_to_dt(d: NaiveDate, t: ExtendedTime) -> NaiveDateTime {
    d.and_hms_opt(0, 0, 0).unwrap() + Duration::minutes(t.mins_from_midnight() as i64)
}

/// Pointwise state at an instant, from the schedule of its day.
pub fn kind_at(oh: &Oh, t: NaiveDateTime) -> RuleKind {
    let time: ExtendedTime = NaiveTime::from_hms_opt(chrono::Timelike::hour(&t), chrono::Timelike::minute(&t), 0).unwrap().into();
    for tr in oh.schedule_at(t.date()) {
        if tr.range.start <= time && time < tr.range.end {
            return tr.kind;
        }
    }
    RuleKind::Closed
}

/// Does the schedule of day `d` give kind `k` to every instant of [s, e) that falls on `d`?
fn check_day(oh: &Oh, d: NaiveDate, s: NaiveDateTime, e: NaiveDateTime, k: RuleKind) -> Result<(), String> {
    let mut covered_to = ExtendedTime::MIDNIGHT_00;
    for tr in oh.schedule_at(d) {
        let (a, b) = (et_to_dt(d, tr.range.start), et_to_dt(d, tr.range.end));
        covered_to = tr.range.end;
        let lo = a.max(s);
        let hi = b.min(e);
        if lo < hi && tr.kind != k {
            return Err(format!("the interval [{s}, {e}) has state {k} but the schedule of {d} gives {} from {lo} to {hi}", tr.kind));
        }
    }
    if covered_to < ExtendedTime::MIDNIGHT_24 {
        return Err(format!("schedule of {d} does not cover the whole day (ends {covered_to:?})"));
    }
    Ok(())
}

pub struct PointwiseStats {
    pub days_checked: u64,
    pub days_unchecked: u64,
    pub skipped_days_checked: u64,
    pub skips: u64,
    pub skips_not_expanded: u64,
    pub max_skip: u64,
    pub skip_hist: [u64; 6],
}

impl Default for PointwiseStats {
    fn default() -> Self {
        PointwiseStats { days_checked: 0, days_unchecked: 0, skipped_days_checked: 0, skips: 0, skips_not_expanded: 0, max_skip: 0, skip_hist: [0; 6] }
    }
}

pub fn skip_bucket(len: i64) -> usize {
    match len {
        0..=1 => 0,
        2..=7 => 1,
        8..=31 => 2,
        32..=366 => 3,
        367..=3660 => 4,
        _ => 5,
    }
}

pub const SKIP_BUCKETS: [&str; 6] = ["1", "2-7", "8-31", "32-366", "367-3660", "3661+"];

/// Every instant inside an interval has the interval's state according to the daily schedules.
/// Short intervals are checked on all their days; long ones on every day the iterator skipped
/// (bounded per skip) plus candidate days derived from the expression.
pub fn check_pointwise(oh: &Oh, ast: Option<&OpeningHoursExpression>, s: &Stream, r: &mut Rng, full_limit_days: i64, st: &mut PointwiseStats) -> Result<(), String> {
    for (a, b) in &s.skips {
        let len = (*b - *a).num_days();
        st.skips += 1;
        st.max_skip = st.max_skip.max(len as u64);
        st.skip_hist[skip_bucket(len)] += 1;
    }
    let candidates: Vec<NaiveDate> = match ast {
        Some(e) => {
            let empty = compact_calendar::CompactCalendar::default();
            dates::interesting_days(e, &empty, &empty, r, 160)
        }
        None => Vec::new(),
    };
    for iv in &s.intervals {
        let (d0, d1) = (iv.start.date(), (iv.end - Duration::nanoseconds(1)).date());
        let ndays = (d1 - d0).num_days() + 1;
        if ndays <= full_limit_days {
            let mut d = d0;
            loop {
                check_day(oh, d, iv.start, iv.end, iv.kind)?;
                st.days_checked += 1;
                if d >= d1 {
                    break;
                }
                d = d.succ_opt().unwrap();
            }
            continue;
        }
        // long interval: end-points, skipped days, candidates
        let mut to_check: Vec<NaiveDate> = Vec::new();
        for k in 0..3 {
            to_check.push(d0 + Duration::days(k));
            to_check.push(d1 - Duration::days(k));
        }
        let mut skipped_here = 0u64;
        // at most ~40 skips are expanded per long interval (first, last, random ones): an
        // 8000-year walk in yearly jumps would otherwise cost millions of schedule evaluations
        let relevant: Vec<&(NaiveDate, NaiveDate)> = s.skips.iter().filter(|(a, b)| *b > d0 && *a < d1 && (*b - *a).num_days() > 1).collect();
        let chosen: Vec<&(NaiveDate, NaiveDate)> = if relevant.len() <= 40 {
            relevant
        } else {
            let mut c: Vec<&(NaiveDate, NaiveDate)> = Vec::new();
            c.extend(relevant.iter().take(8));
            c.extend(relevant.iter().rev().take(8));
            for _ in 0..24 {
                c.push(relevant[r.below(relevant.len() as u64) as usize]);
            }
            st.skips_not_expanded += (relevant.len() - 40) as u64;
            c
        };
        for (a, b) in chosen {
            // days strictly between a and b were not evaluated by the iterator
            let lo = (*a).max(d0);
            let hi = (*b).min(d1);
            let len = (hi - lo).num_days() - 1;
            if len <= 0 {
                continue;
            }
            let first = lo + Duration::days(1);
            if len <= 3000 {
                for k in 0..len {
                    to_check.push(first + Duration::days(k));
                }
                skipped_here += len as u64;
            } else {
                for k in 0..1200 {
                    to_check.push(first + Duration::days(k));
                    to_check.push(hi - Duration::days(1 + k));
                }
                for _ in 0..600 {
                    to_check.push(first + Duration::days(r.below(len as u64) as i64));
                }
                skipped_here += 3000;
            }
        }
        for c in &candidates {
            if *c >= d0 && *c <= d1 {
                to_check.push(*c);
            }
        }
        // a stratified sample of the rest
        for _ in 0..200 {
            to_check.push(d0 + Duration::days(r.below(ndays as u64) as i64));
        }
        to_check.sort();
        to_check.dedup();
        to_check.retain(|d| *d >= d0 && *d <= d1);
        for d in &to_check {
            check_day(oh, *d, iv.start, iv.end, iv.kind)?;
        }
        st.days_checked += to_check.len() as u64;
        st.skipped_days_checked += skipped_here;
        st.days_unchecked += (ndays as u64).saturating_sub(to_check.len() as u64);
    }
    Ok(())
}

/// First instant after `t` (strictly) whose pointwise state differs from the state at `t`,
/// scanning the daily schedules up to `horizon` (exclusive). None = no change before the horizon.
pub fn next_change_pointwise(oh: &Oh, t: NaiveDateTime, horizon: NaiveDateTime) -> Option<NaiveDateTime> {
    let k0 = kind_at(oh, t);
    let mut d = t.date();
    let last = horizon.date();
    while d <= last {
        for tr in oh.schedule_at(d) {
            let a = et_to_dt(d, tr.range.start);
            if a > t && a < horizon && tr.kind != k0 {
                return Some(a);
            }
        }
        d = d.succ_opt()?;
    }
    None
}

/// Run `f` under a budget of day-steps (hook H1). Ok(None) = the budget ran out (not a verdict:
/// an expression that never changes but is not trivially constant legitimately walks day by day
/// to 9999); Err = a real panic.
pub fn with_day_budget<T>(steps: u64, f: impl FnOnce() -> T) -> Result<Option<T>, String> {
    hooks::reset_ticks();
    hooks::arm_budget(hooks::Site::DayStep, steps);
    let r = guarded(f);
    hooks::disarm_budgets();
    match r {
        Ok(x) => Ok(Some(x)),
        Err(p) if p.starts_with("step budget exceeded") => {
            // a budget on the minute stepping of the zone mapping is a verdict, not a cost cut
            let t = hooks::ticks();
            if t[hooks::Site::TzMinuteStep as usize] >= 200_000 {
                Err("unbounded work: more than 200000 minute steps while mapping a naive result into the zone (the gap is never left)".to_string())
            } else {
                Ok(None)
            }
        }
        Err(p) => Err(p),
    }
}

/// The exact stream the daily schedules define on [d0 00:00, d1 + 1 day 00:00): starts of the
/// maximal runs of one state, obtained by evaluating EVERY day of the window (no skipping).
pub fn expected_runs(oh: &Oh, d0: NaiveDate, d1: NaiveDate) -> Result<Vec<(NaiveDateTime, RuleKind)>, String> {
    guarded(|| {
        let mut runs: Vec<(NaiveDateTime, RuleKind)> = Vec::new();
        let mut d = d0;
        loop {
            let mut covered_to = ExtendedTime::MIDNIGHT_00;
            for tr in oh.schedule_at(d) {
                if tr.range.start >= ExtendedTime::MIDNIGHT_24 {
                    break;
                }
                if runs.last().map(|l| l.1) != Some(tr.kind) {
                    runs.push((et_to_dt(d, tr.range.start.max(covered_to)), tr.kind));
                }
                covered_to = tr.range.end;
            }
            if d >= d1 {
                break;
            }
            d = d.succ_opt().unwrap();
        }
        runs
    })
}

pub struct ExactStats {
    pub days_evaluated: u64,
    pub intervals_compared: u64,
    pub next_change_calls: u64,
}

/// iter_range over the whole window must produce exactly the expected runs; next_change from a
/// sample of instants must return the start of the following run (None only at 10000-01-01).
pub fn check_exact(oh: &Oh, d0: NaiveDate, d1: NaiveDate, r: &mut Rng, nc_samples: usize, st: &mut ExactStats) -> Result<(), String> {
    let from = d0.and_hms_opt(0, 0, 0).unwrap();
    let to = (d1.and_hms_opt(0, 0, 0).unwrap() + Duration::days(1)).min(date_end());
    let runs = expected_runs(oh, d0, d1)?;
    st.days_evaluated += (d1 - d0).num_days() as u64 + 1;
    let got = match with_day_budget(20_000_000, || oh.iter_range(from, to).map(|i| (i.range.start, i.range.end, i.kind)).collect::<Vec<_>>())? {
        Some(g) => g,
        None => return Err(format!("iter_range({from}, {to}) made more than 20 million day steps")),
    };
    for (k, (start, kind)) in runs.iter().enumerate() {
        let end = runs.get(k + 1).map(|n| n.0).unwrap_or(to);
        match got.get(k) {
            None => return Err(format!("iter_range({from}, {to}) ends after {} intervals; the daily schedules give {kind} from {start} to {end}", got.len())),
            Some((gs, ge, gk)) => {
                if (gs, ge, gk) != (start, &end, kind) {
                    return Err(format!("iter_range({from}, {to}) interval #{k} is [{gs}, {ge}) {gk}; evaluating every day gives [{start}, {end}) {kind}"));
                }
            }
        }
        st.intervals_compared += 1;
    }
    if got.len() > runs.len() {
        let x = got[runs.len()];
        return Err(format!("iter_range({from}, {to}) yields an extra interval [{}, {}) {} after the window's last run", x.0, x.1, x.2));
    }
    // next_change from instants inside sampled runs
    for _ in 0..nc_samples.min(runs.len()) {
        let k = r.below(runs.len() as u64) as usize;
        let (start, kind) = runs[k];
        let end = runs.get(k + 1).map(|n| n.0).unwrap_or(to);
        let len = (end - start).num_minutes().max(1);
        let t = match r.below(3) {
            0 => start,
            1 => end - Duration::minutes(1),
            _ => start + Duration::minutes(r.below(len as u64) as i64),
        };
        if k + 1 == runs.len() && to < date_end() {
            continue; // the last run of the window continues beyond it
        }
        let expect = if k + 1 == runs.len() { None } else { Some(end) };
        st.next_change_calls += 1;
        match with_day_budget(20_000_000, || oh.next_change(t))? {
            None => return Err(format!("next_change({t}) made more than 20 million day steps")),
            Some(g) if g != expect => return Err(format!("next_change({t}) = {g:?}; evaluating every day gives {kind} from {start} until {expect:?}")),
            _ => {}
        }
    }
    Ok(())
}

/// One-rule expressions whose day selector takes every value of one parameter (weeks, days of the
/// year, months, nth weekdays, date offsets, Easter offsets); `part` in 0..6 rotates the larger families.
pub fn grid_day_selectors(all: bool, part: u64) -> Vec<String> {
    let months = ["Jan", "Feb", "Mar", "Apr", "May", "Jun", "Jul", "Aug", "Sep", "Oct", "Nov", "Dec"];
    let mdays = [31u32, 29, 31, 30, 31, 30, 31, 31, 30, 31, 30, 31];
    let wds = ["Mo", "Tu", "We", "Th", "Fr", "Sa", "Su"];
    let mut v: Vec<String> = Vec::new();
    let mut k = 0u64;
    let mut rot = |v: &mut Vec<String>, s: String, modulo: u64| {
        k += 1;
        if all || k % modulo == part % modulo {
            v.push(s);
        }
    };
    for n in 1..=53 {
        v.push(format!("week {n:02}"));
    }
    for a in 1..=53 {
        rot(&mut v, format!("week {a:02}-{:02}", 1 + (a + 6) % 53), 4);
        rot(&mut v, format!("week {a:02}-53/{}", 2 + a % 5), 4);
    }
    for (i, m) in months.iter().enumerate() {
        v.push(m.to_string());
        for d in 1..=mdays[i] {
            rot(&mut v, format!("{m} {d:02}"), 6);
        }
        for (j, b) in months.iter().enumerate() {
            if i != j {
                rot(&mut v, format!("{m}-{b}"), 4);
                rot(&mut v, format!("{m} {:02}-{b} {:02}", 1 + (i * 7 + j) as u32 % mdays[i], 1 + (i + j * 5) as u32 % mdays[j]), 4);
            }
        }
    }
    for wd in wds {
        for n in [1, 2, 3, 4, 5, -1, -2, -3, -4, -5] {
            v.push(format!("{wd}[{n}]"));
        }
        for sign in ['+', '-'] {
            for (m, d) in [("Jan", 1), ("Feb", 28), ("Mar", 1), ("Jul", 14), ("Dec", 25), ("Dec", 31)] {
                v.push(format!("{m} {d:02}{sign}{wd}"));
            }
        }
    }
    for n in (-60..=60i32).filter(|n| *n != 0) {
        let unit = if n.abs() == 1 { "day" } else { "days" };
        let sign = if n < 0 { '-' } else { '+' };
        rot(&mut v, format!("easter {sign}{} {unit}", n.abs()), 4);
        rot(&mut v, format!("Feb 28 {sign}{} {unit}", n.abs()), 4);
        rot(&mut v, format!("Dec 31 {sign}{} {unit}-Jan 01 {sign}{} {unit}", n.abs(), n.abs() + 2), 4);
    }
    v.push("easter".into());
    v
}

/// One-rule expressions combining a few day selectors with every pair of time spans built from
/// boundary clock values (00:00, 00:01, 12:00, 23:59, 24:00, 24:01, 36:00, 47:59, 48:00), open ends
/// and sun events: the shapes on which "is this rule constant over the day / does it spill past
/// midnight" decisions of the iterator depend.
pub fn grid_time_shapes(all: bool, part: u64) -> Vec<String> {
    let clock = ["00:00", "00:01", "12:00", "23:59", "24:00", "24:01", "36:00", "47:59", "48:00"];
    let mut spans: Vec<String> = Vec::new();
    for a in &clock[..5] {
        for b in clock {
            spans.push(format!("{a}-{b}"));
        }
    }
    for x in ["00:00+", "12:00+", "23:59+", "sunrise-sunset", "sunset-sunrise", "(sunset+06:00)-01:00", "dusk-48:00", "00:00-dawn", "(dawn-06:00)-(dusk+04:00)", "10:00-16:00/01:30"] {
        spans.push(x.to_string());
    }
    let days: &[&str] = if all {
        &["Jul 22", "Feb 29", "Dec 31", "Jan 01", "week 10", "week 53", "2030", "2029-2033/2", "Jan", "Dec-Jan", "easter", "easter -1 day", "Jul 20-Jul 22", "Sa[-1]", "Jan 01+Mo", "PH"]
    } else {
        &["Jul 22", "Dec 31", "week 10", "2030", "Jan", "easter", "Jul 20-Jul 22", "Sa[-1]"]
    };
    let kinds = ["", " unknown", " off", " \"c\""];
    let mut v = Vec::new();
    let mut k = 0u64;
    for d in days {
        for (i, a) in spans.iter().enumerate() {
            v.push(format!("{d} {a}{}", kinds[i % 4]));
            for (j, b) in spans.iter().enumerate() {
                if i == j || (!all && j < i) {
                    continue;
                }
                k += 1;
                if all || k % 2 == part % 2 {
                    v.push(format!("{d} {a},{b}{}", kinds[(i + j) % 4]));
                }
            }
        }
    }
    v
}

/// Located exact grid: with coordinates in the context the times of sun events depend on the day, so
/// an event-based span bound may lie before midnight on one day and after it on the next. For day
/// selectors that let the iterator jump (no weekday), and spans whose event + offset lands within
/// +-3 minutes of 24:00 / 00:00 on the selector's last matching day, the whole stream of 25 years is
/// compared with the result of evaluating every day; next_change is sampled as in `check_exact`.
pub type LocOh = OpeningHours<opening_hours::localization::TzLocation<chrono_tz::Tz>>;

pub fn located_grid_expressions(lat: f64, lon: f64) -> Vec<String> {
    use chrono::{Datelike, Timelike};
    use opening_hours::localization::Coordinates;
    use opening_hours_syntax::rules::time::TimeEvent;
    let Some(c) = Coordinates::new(lat, lon) else { return Vec::new() };
    let mut out = Vec::new();
    for sel in ["Aug 15", "Jan", "week 10", "2030", "easter", "Jul 20-Jul 22", "Dec 31", "Feb 29", "Mar-Jun"] {
        // the selector's last matching day in 2024 (2030 for the year selector), found by scanning
        let Ok(plain) = OpeningHours::parse(sel) else { continue };
        let year = if sel == "2030" { 2030 } else { 2024 };
        let mut last = None;
        let mut d = NaiveDate::from_ymd_opt(year, 1, 1).unwrap();
        while d.year() == year {
            if plain.schedule_at(d).into_iter().any(|t| t.kind == RuleKind::Open) {
                last = Some(d);
            }
            d = d.succ_opt().unwrap();
        }
        let Some(last) = last else { continue };
        for (ev, name) in [(TimeEvent::Dawn, "dawn"), (TimeEvent::Sunrise, "sunrise"), (TimeEvent::Sunset, "sunset"), (TimeEvent::Dusk, "dusk")] {
            let t = c.event_time(last, ev);
            let e = (t.hour() * 60 + t.minute()) as i32;
            for delta in -3..=3i32 {
                let fmt = |o: i32| format!("({name}{}{:02}:{:02})", if o < 0 { '-' } else { '+' }, o.abs() / 60, o.abs() % 60);
                let up = 1440 - e + delta; // event + up ~ 24:00
                if (1..=1440).contains(&up) {
                    out.push(format!("{sel} {}-24:00", fmt(up)));
                    out.push(format!("{sel} {}-26:00 unknown", fmt(up)));
                    out.push(format!("{sel} 12:00-{}", fmt(up)));
                }
                let down = -(e + delta); // event + down ~ 00:00
                if (-1440..=-1).contains(&down) {
                    out.push(format!("{sel} {}-12:00", fmt(down)));
                    out.push(format!("{sel} 18:00-{} unknown", fmt(down)));
                }
            }
        }
    }
    out
}

pub fn check_exact_located(oh: &LocOh, d0: NaiveDate, d1: NaiveDate, r: &mut Rng, nc_samples: usize, st: &mut ExactStats) -> Result<(), String> {
    use chrono::TimeZone;
    let utc = chrono_tz::UTC;
    let from = d0.and_hms_opt(0, 0, 0).unwrap();
    let to = d1.and_hms_opt(0, 0, 0).unwrap() + Duration::days(1);
    // expected runs: every day evaluated (the context's zone is UTC, so local time is the instant)
    let runs: Vec<(NaiveDateTime, RuleKind)> = guarded(|| {
        let mut runs: Vec<(NaiveDateTime, RuleKind)> = Vec::new();
        let mut d = d0;
        loop {
            let mut covered_to = ExtendedTime::MIDNIGHT_00;
            for tr in oh.schedule_at(d) {
                if tr.range.start >= ExtendedTime::MIDNIGHT_24 {
                    break;
                }
                if runs.last().map(|l| l.1) != Some(tr.kind) {
                    runs.push((et_to_dt(d, tr.range.start.max(covered_to)), tr.kind));
                }
                covered_to = tr.range.end;
            }
            if d >= d1 {
                break;
            }
            d = d.succ_opt().unwrap();
        }
        runs
    })?;
    st.days_evaluated += (d1 - d0).num_days() as u64 + 1;
    let got: Vec<(NaiveDateTime, NaiveDateTime, RuleKind)> = match with_day_budget(20_000_000, || oh.iter_range(utc.from_utc_datetime(&from), utc.from_utc_datetime(&to)).map(|i| (i.range.start.naive_utc(), i.range.end.naive_utc(), i.kind)).collect::<Vec<_>>())? {
        Some(g) => g,
        None => return Err(format!("iter_range({from}, {to}) made more than 20 million day steps")),
    };
    for (k, (start, kind)) in runs.iter().enumerate() {
        let end = runs.get(k + 1).map(|n| n.0).unwrap_or(to);
        match got.get(k) {
            None => return Err(format!("iter_range({from}, {to}) ends after {} intervals; the daily schedules give {kind} from {start} to {end}", got.len())),
            Some((gs, ge, gk)) => {
                if (gs, ge, gk) != (start, &end, kind) {
                    return Err(format!("iter_range({from}, {to}) interval #{k} is [{gs}, {ge}) {gk}; evaluating every day gives [{start}, {end}) {kind}"));
                }
            }
        }
        st.intervals_compared += 1;
    }
    if got.len() > runs.len() {
        let x = got[runs.len()];
        return Err(format!("iter_range({from}, {to}) yields an extra interval [{}, {}) {}", x.0, x.1, x.2));
    }
    for _ in 0..nc_samples.min(runs.len().saturating_sub(1)) {
        let k = r.below(runs.len() as u64 - 1) as usize;
        let (start, kind) = runs[k];
        let end = runs[k + 1].0;
        let len = (end - start).num_seconds().max(1);
        let t = match r.below(4) {
            0 => start,
            1 => end - Duration::minutes(1),
            2 => start + Duration::seconds(17),
            _ => start + Duration::seconds(r.below(len as u64) as i64),
        };
        st.next_change_calls += 1;
        match with_day_budget(20_000_000, || oh.next_change(utc.from_utc_datetime(&t)))? {
            None => return Err(format!("next_change({t}) made more than 20 million day steps")),
            Some(g) if g.map(|x| x.naive_utc()) != Some(end) => return Err(format!("next_change({t}) = {:?}; evaluating every day gives {kind} from {start} until {end}", g.map(|x| x.naive_utc()))),
            _ => {}
        }
    }
    Ok(())
}

pub const LOCATED_GRID_SITES: [(f64, f64); 5] = [(48.8566, 2.3522), (-33.8688, 151.2093), (59.93, 30.36), (1.35, 103.82), (40.7128, -74.006)];

pub fn build_located(text: &str, lat: f64, lon: f64) -> Option<LocOh> {
    use opening_hours::localization::{Coordinates, TzLocation};
    let c = Coordinates::new(lat, lon)?;
    match guarded(|| OpeningHours::parse(text)) {
        Ok(Ok(oh)) => Some(oh.with_context(opening_hours::Context::default().with_locale(TzLocation::new(chrono_tz::UTC).with_coords(c)))),
        _ => None,
    }
}
