//! Deterministic random streams: every case is reproducible from (seed, worker, index).

#[derive(Clone, Debug)]
pub struct Rng(u64);

fn splitmix(x: &mut u64) -> u64 {
    *x = x.wrapping_add(0x9E37_79B9_7F4A_7C15);
    let mut z = *x;
    z = (z ^ (z >> 30)).wrapping_mul(0xBF58_476D_1CE4_E5B9);
    z = (z ^ (z >> 27)).wrapping_mul(0x94D0_49BB_1331_11EB);
    z ^ (z >> 31)
}

impl Rng {
    pub fn new(seed: u64, stream: u64, index: u64) -> Self {
        let mut s = seed ^ 0x5851_F42D_4C95_7F2D;
        let a = splitmix(&mut s);
        let mut s2 = a ^ stream.wrapping_mul(0xD6E8_FEB8_6659_FD93);
        let b = splitmix(&mut s2);
        let mut s3 = b ^ index.wrapping_mul(0xA076_1D64_78BD_642F);
        let c = splitmix(&mut s3);
        Rng(c | 1)
    }

    pub fn next(&mut self) -> u64 {
        splitmix(&mut self.0)
    }

    /// Uniform in 0..n (n > 0).
    pub fn below(&mut self, n: u64) -> u64 {
        self.next() % n
    }

    pub fn range(&mut self, lo: i64, hi_incl: i64) -> i64 {
        lo + self.below((hi_incl - lo + 1) as u64) as i64
    }

    pub fn pick<'a, T>(&mut self, v: &'a [T]) -> &'a T {
        &v[self.below(v.len() as u64) as usize]
    }

    /// True with probability p percent.
    pub fn chance(&mut self, p: u64) -> bool {
        self.below(100) < p
    }

    pub fn f64(&mut self) -> f64 {
        (self.next() >> 11) as f64 / (1u64 << 53) as f64
    }

    pub fn shuffle<T>(&mut self, v: &mut [T]) {
        for i in (1..v.len()).rev() {
            let j = self.below(i as u64 + 1) as usize;
            v.swap(i, j);
        }
    }
}

pub fn hash64(s: &str) -> u64 {
    // FNV-1a, then a splitmix finaliser
    let mut h: u64 = 0xcbf2_9ce4_8422_2325;
    for b in s.as_bytes() {
        h ^= *b as u64;
        h = h.wrapping_mul(0x0000_0100_0000_01B3);
    }
    let mut x = h;
    splitmix(&mut x)
}
