//! C15 — CompactCalendar is a faithful set of dates, also across serialization.

use crate::out::{guarded, Args, Report};
use crate::rng::Rng;
use chrono::{Datelike, Duration, NaiveDate};
use compact_calendar::{CompactCalendar, CompactMonth, CompactYear};
use serde_json::{json, Value};
use std::collections::BTreeSet;

fn d(y: i32, m: u32, dd: u32) -> NaiveDate {
    NaiveDate::from_ymd_opt(y, m, dd).unwrap()
}

fn rand_date(r: &mut Rng, years: &[i32]) -> NaiveDate {
    let y = *r.pick(years);
    if r.chance(35) {
        let (m, dd) = *r.pick(&[(1u32, 1u32), (12, 31), (2, 28), (2, 29), (3, 1), (1, 31), (12, 1), (7, 31), (8, 1), (6, 30)]);
        NaiveDate::from_ymd_opt(y, m, dd).unwrap_or_else(|| d(y, 2, 28))
    } else {
        NaiveDate::from_yo_opt(y, 1 + r.below(365) as u32).unwrap()
    }
}

fn check_against(cal: &CompactCalendar, set: &BTreeSet<NaiveDate>, probes: &[NaiveDate]) -> Result<(), String> {
    if cal.count() as usize != set.len() {
        return Err(format!("count() = {}, set has {}", cal.count(), set.len()));
    }
    let it: Vec<NaiveDate> = cal.iter().collect();
    let exp: Vec<NaiveDate> = set.iter().copied().collect();
    if it != exp {
        return Err(format!("iter() = {it:?}, expected {exp:?}"));
    }
    for p in probes {
        if cal.contains(*p) != set.contains(p) {
            return Err(format!("contains({p}) = {}", cal.contains(*p)));
        }
        let exp = p.succ_opt().and_then(|n| set.range(n..).next().copied());
        let got = cal.first_after(*p);
        if got != exp {
            return Err(format!("first_after({p}) = {got:?}, expected {exp:?}"));
        }
    }
    Ok(())
}

fn check_history(hist: &[NaiveDate], extra_probes: &[NaiveDate], perm_seed: u64) -> Result<(), String> {
    let mut cal = CompactCalendar::default();
    let mut set = BTreeSet::new();
    let empty = CompactCalendar::default();
    if empty.count() != 0 || empty.iter().next().is_some() {
        return Err("default calendar is not empty".into());
    }
    for (i, x) in hist.iter().enumerate() {
        // a third of the insertions go through the public handle on the stored year
        // (`year_for_mut(date)` -> `CompactYear::insert(month, day)`) when that year is stored
        let via_handle = (i as u64 + perm_seed) % 3 == 1;
        let fresh = match (via_handle, cal.year_for_mut(*x)) {
            (true, Some(year)) => year.insert(x.month(), x.day()),
            _ => cal.insert(*x),
        };
        let exp = set.insert(*x);
        if fresh != exp {
            return Err(format!("insert #{i} ({x}{}) returned {fresh}, expected {exp}", if via_handle { ", through year_for_mut when the year is stored" } else { "" }));
        }
        if !cal.contains(*x) {
            return Err(format!("after insert #{i}: contains({x}) is false"));
        }
        match cal.year_for(*x) {
            Some(year) if year.contains(x.month(), x.day()) => {}
            other => return Err(format!("after insert #{i}: year_for({x}) = {:?}, which does not contain the date", other.map(|y| y.count()))),
        }
        if cal.count() as usize != set.len() {
            return Err(format!("after insert #{i} ({x}{}): count() = {}, {} distinct dates were inserted", if via_handle { ", through year_for_mut when the year is stored" } else { "" }, cal.count(), set.len()));
        }
    }
    let mut probes: Vec<NaiveDate> = extra_probes.to_vec();
    for x in set.iter() {
        for k in [-1i64, 0, 1] {
            if let Some(p) = x.checked_add_signed(Duration::days(k)) {
                probes.push(p);
            }
        }
        if let Some(p) = NaiveDate::from_ymd_opt(x.year(), 1, 1) {
            probes.push(p);
        }
        if let Some(p) = NaiveDate::from_ymd_opt(x.year(), 12, 31) {
            probes.push(p);
        }
    }
    if let (Some(lo), Some(hi)) = (set.iter().next(), set.iter().last()) {
        for k in [1, 2, 366, 800, 100_000] {
            probes.extend(lo.checked_sub_signed(Duration::days(k)));
            probes.extend(hi.checked_add_signed(Duration::days(k)));
        }
    }
    probes.push(NaiveDate::MIN);
    probes.push(NaiveDate::MAX);
    if cfg!(miri) {
        // the interpreter is ~4 orders of magnitude slower: a handful of probes is enough there
        probes.truncate(24);
    }
    check_against(&cal, &set, &probes)?;

    // equality is set equality: a permutation of the history, and FromIterator
    let mut r = Rng::new(perm_seed, 0, 0);
    let mut perm = hist.to_vec();
    r.shuffle(&mut perm);
    let mut cal2 = CompactCalendar::default();
    for x in &perm {
        cal2.insert(*x);
    }
    if cal != cal2 {
        return Err("two calendars holding the same dates (permuted insertion order) compare unequal".into());
    }
    let cal3: CompactCalendar = set.iter().rev().copied().collect();
    if cal != cal3 {
        return Err("FromIterator calendar with the same dates compares unequal".into());
    }
    // a calendar with one date more / less differs
    if let Some(last) = set.iter().last() {
        let mut less = CompactCalendar::default();
        for x in set.iter().filter(|x| *x != last) {
            less.insert(*x);
        }
        if less == cal {
            return Err(format!("calendar without {last} compares equal"));
        }
    }
    let mut more = cal.clone();
    if let Some(x) = probes.iter().find(|p| !set.contains(p) && (-3000..=12000).contains(&p.year())) {
        more.insert(*x);
        if more == cal {
            return Err(format!("calendar with {x} added compares equal"));
        }
    }

    // serialization: round trip, exact byte consumption, concatenation
    let mut bytes = Vec::new();
    cal.serialize(&mut bytes).map_err(|e| format!("serialize: {e}"))?;
    let len1 = bytes.len();
    more.serialize(&mut bytes).map_err(|e| format!("serialize: {e}"))?;
    empty.serialize(&mut bytes).map_err(|e| format!("serialize: {e}"))?;
    bytes.extend_from_slice(&[0xAB, 0xCD]);
    let mut cursor = std::io::Cursor::new(&bytes[..]);
    let back = CompactCalendar::deserialize(&mut cursor).map_err(|e| format!("deserialize: {e}"))?;
    if cursor.position() as usize != len1 {
        return Err(format!("deserialize consumed {} bytes, serialize wrote {len1}", cursor.position()));
    }
    if back != cal {
        return Err("deserialize(serialize(c)) != c".into());
    }
    check_against(&back, &set, &probes)?;
    let back2 = CompactCalendar::deserialize(&mut cursor).map_err(|e| format!("deserialize second: {e}"))?;
    if back2 != more {
        return Err("second calendar of a concatenated stream not recovered".into());
    }
    let back3 = CompactCalendar::deserialize(&mut cursor).map_err(|e| format!("deserialize third: {e}"))?;
    if back3 != empty || back3.count() != 0 {
        return Err("empty calendar of a concatenated stream not recovered".into());
    }
    if bytes.len() - cursor.position() as usize != 2 {
        return Err(format!("stream framing: {} trailing bytes instead of 2", bytes.len() - cursor.position() as usize));
    }
    // truncated input is an error, not a panic and not a success: every proper prefix of a short
    // stream, the last byte cut off a long one
    // (every prefix and the short-read readers for one history in 32; the last byte cut off for all)
    let heavy = perm_seed % 32 == 0;
    if len1 > 0 {
        let cuts: Vec<usize> = if heavy && len1 <= 256 { (0..len1).collect() } else if heavy && len1 < 100_000 { vec![len1 - 1, len1 / 2, 7, 8, 9].into_iter().filter(|c| *c < len1).collect() } else { vec![len1 - 1] };
        for cut in cuts {
            if CompactCalendar::deserialize(&bytes[..cut]).is_ok() {
                return Err(format!("deserialize accepted a stream truncated to {cut} of {len1} bytes"));
            }
        }
    }
    // a reader may legally return fewer bytes than asked for (pipes, sockets, buffered files): the
    // same stream through readers that hand out 1, 3, 5 or a varying number of bytes per call
    for chunk in if heavy && len1 < 100_000 { vec![1usize, 3, 5, 0] } else if heavy { vec![0] } else { vec![] } {
        let mut reader = ChunkedReader { data: &bytes, pos: 0, chunk, calls: 0 };
        let a = CompactCalendar::deserialize(&mut reader).map_err(|e| format!("deserialize through a reader returning short reads (chunk {chunk}): {e}"))?;
        if a != cal || reader.pos != len1 {
            return Err(format!("deserialize through a reader returning short reads (chunk {chunk}): calendar differs or {} bytes consumed instead of {len1}", reader.pos));
        }
        let b = CompactCalendar::deserialize(&mut reader).map_err(|e| format!("second calendar through a reader returning short reads (chunk {chunk}): {e}"))?;
        if b != more {
            return Err(format!("second calendar of a stream read in short reads (chunk {chunk}) not recovered"));
        }
    }
    Ok(())
}

/// A reader that returns at most `chunk` bytes per call (a varying 1..7 when `chunk` is 0).
struct ChunkedReader<'a> {
    data: &'a [u8],
    pos: usize,
    chunk: usize,
    calls: usize,
}

impl std::io::Read for ChunkedReader<'_> {
    fn read(&mut self, buf: &mut [u8]) -> std::io::Result<usize> {
        self.calls += 1;
        let k = if self.chunk == 0 { 1 + (self.calls * 5 + self.pos) % 7 } else { self.chunk };
        let n = k.min(buf.len()).min(self.data.len() - self.pos);
        buf[..n].copy_from_slice(&self.data[self.pos..self.pos + n]);
        self.pos += n;
        Ok(n)
    }
}

fn check_year_month(r: &mut Rng) -> Result<(), String> {
    // CompactMonth vs a set of days
    let mut month = CompactMonth::default();
    let mut days = BTreeSet::new();
    for _ in 0..r.below(12) {
        let day = if r.chance(30) { *r.pick(&[1u32, 31, 30, 2]) } else { 1 + r.below(31) as u32 };
        if month.insert(day) != days.insert(day) {
            return Err(format!("CompactMonth::insert({day}) return value"));
        }
    }
    if month.count() as usize != days.len() || month.iter().collect::<Vec<_>>() != days.iter().copied().collect::<Vec<_>>() {
        return Err(format!("CompactMonth count/iter: {:?} vs {:?}", month.iter().collect::<Vec<_>>(), days));
    }
    if month.first() != days.iter().next().copied() {
        return Err(format!("CompactMonth::first() = {:?} for {:?}", month.first(), days));
    }
    for day in 1..=31u32 {
        if month.contains(day) != days.contains(&day) {
            return Err(format!("CompactMonth::contains({day}) for {days:?}"));
        }
        let exp = days.range(day + 1..).next().copied();
        if month.first_after(day) != exp {
            return Err(format!("CompactMonth::first_after({day}) = {:?}, expected {exp:?} for {days:?}", month.first_after(day)));
        }
    }
    let mut buf = Vec::new();
    month.serialize(&mut buf).map_err(|e| e.to_string())?;
    if buf.len() != 4 || CompactMonth::deserialize(&buf[..]).map_err(|e| e.to_string())? != month {
        return Err("CompactMonth serialization round trip".into());
    }
    // CompactYear vs a set of (month, day)
    let mut year = CompactYear::default();
    let mut md = BTreeSet::new();
    for _ in 0..r.below(14) {
        let m = if r.chance(30) { *r.pick(&[1u32, 12, 2, 11]) } else { 1 + r.below(12) as u32 };
        let day = if r.chance(30) { *r.pick(&[1u32, 31, 28]) } else { 1 + r.below(31) as u32 };
        if year.insert(m, day) != md.insert((m, day)) {
            return Err(format!("CompactYear::insert({m},{day}) return value"));
        }
    }
    if year.count() as usize != md.len() || year.iter().collect::<Vec<_>>() != md.iter().copied().collect::<Vec<_>>() {
        return Err(format!("CompactYear count/iter: {:?} vs {:?}", year.iter().collect::<Vec<_>>(), md));
    }
    if year.first() != md.iter().next().copied() {
        return Err(format!("CompactYear::first() = {:?} for {md:?}", year.first()));
    }
    for m in 1..=12u32 {
        for day in [1u32, 2, 15, 28, 30, 31] {
            if year.contains(m, day) != md.contains(&(m, day)) {
                return Err(format!("CompactYear::contains({m},{day}) for {md:?}"));
            }
            let exp = md.iter().find(|x| **x > (m, day)).copied();
            if year.first_after(m, day) != exp {
                return Err(format!("CompactYear::first_after({m},{day}) = {:?}, expected {exp:?} for {md:?}", year.first_after(m, day)));
            }
        }
    }
    let mut buf = Vec::new();
    year.serialize(&mut buf).map_err(|e| e.to_string())?;
    if buf.len() != 48 || CompactYear::deserialize(&buf[..]).map_err(|e| e.to_string())? != year {
        return Err("CompactYear serialization round trip".into());
    }
    Ok(())
}

/// Entry for the fuzz target.
pub fn check_history_pub(hist: &[NaiveDate]) -> Result<(), String> {
    check_history(hist, &[], 1)
}

fn case_json(hist: &[NaiveDate], probes: &[NaiveDate]) -> Value {
    json!({"history": hist.iter().map(|x| x.to_string()).collect::<Vec<_>>(), "probes": probes.iter().map(|x| x.to_string()).collect::<Vec<_>>()})
}

fn run_history(rep: &mut Report, hist: &[NaiveDate], probes: &[NaiveDate], seed: u64) {
    rep.evaluations += 1;
    match guarded(|| check_history(hist, probes, seed)) {
        Ok(Ok(())) => {}
        Ok(Err(msg)) => {
            // shrink: drop dates while it still fails
            let mut h = hist.to_vec();
            let mut i = 0;
            while i < h.len() && h.len() > 1 {
                let mut t = h.clone();
                t.remove(i);
                if matches!(guarded(|| check_history(&t, probes, seed)), Ok(Err(_)) | Err(_)) {
                    h = t;
                } else {
                    i += 1;
                }
            }
            let msg2 = match guarded(|| check_history(&h, probes, seed)) {
                Ok(Err(m)) => m,
                Err(p) => format!("panic: {p}"),
                _ => msg,
            };
            rep.violation("calendar_set_semantics", msg2, case_json(&h, probes), None);
        }
        Err(p) => rep.violation("panic", format!("panic: {p}"), case_json(hist, probes), None),
    }
}

pub fn run(args: &Args, rep: &mut Report) {
    let reduced = args.extra.iter().any(|e| e == "reduced");
    // exhaustive part: every (month, day) of one leap and one common year, singly and cumulatively
    if args.worker == 0 {
        let years: &[i32] = if reduced { &[2024] } else { &[2024, 2023, -4, 1900] };
        for &y in years {
            let mut cumulative = Vec::new();
            let mut day = d(y, 1, 1);
            while day.year() == y {
                if !reduced || (day.day() == 31 && day.month() % 5 == 0) || (day.day() == 1 && day.month() == 1) {
                    run_history(rep, &[day], &[], 1);
                    rep.count("single_date_calendars");
                    rep.count("distinct_enumerated");
                }
                cumulative.push(day);
                day = day.succ_opt().unwrap();
            }
            if !reduced {
                run_history(rep, &cumulative, &[], 2);
                let mut rev = cumulative.clone();
                rev.reverse();
                run_history(rep, &rev, &[], 3);
            }
        }
    }
    // span ladder: calendars whose first and last stored years are W years apart, W = 1..70, then
    // 2^k - 1, 2^k, 2^k + 1 up to 2^18, and the whole range chrono can represent; built by appending
    // (increasing years), by prepending (decreasing) and from the middle outwards
    if !reduced {
        let mut spans: Vec<i32> = (1..=70).collect();
        for k in 7..=18 {
            spans.extend([(1 << k) - 1, 1 << k, (1 << k) + 1]);
        }
        spans.push(262_142 + 262_143);
        let mut idx = 0u64;
        for w in spans {
            for variant in 0..3u64 {
                idx += 1;
                if (idx - 1) % args.of.max(1) != args.worker {
                    continue;
                }
                let y0 = if w >= 262_142 + 262_143 { -262_143 } else { [1900 - w / 2, -w + 3, 9999 - w][variant as usize].clamp(-262_143, 262_142 - w) };
                let (a, b, m) = (d(y0, 12, 31), d(y0 + w, 1, 1), d(y0 + w / 2, 2, 28));
                let hist = match variant {
                    0 => vec![a, m, b],
                    1 => vec![b, m, a],
                    _ => vec![m, a, b, a],
                };
                let probes = [a.pred_opt().unwrap_or(a), a, m, b, b.succ_opt().unwrap_or(b), d(y0 + w / 3, 6, 15)];
                rep.count("span_ladder_histories");
                rep.max("max_year_span", w as u64);
                rep.begin(&format!("span ladder: {hist:?}"));
                run_history(rep, &hist, &probes, idx);
                if rep.full() {
                    return;
                }
            }
        }
    }
    let n = if reduced { args.cases(60, 600) } else { args.cases(600_000, 12_000_000) };
    for k in 0..n {
        let mut r = Rng::new(args.seed, args.worker, k);
        let base = *r.pick(&[2000, 2024, 1900, 9999, 1, -1, 0, -400, 2100]);
        let mut years: Vec<i32> = vec![base];
        match if reduced { r.below(3) } else { r.below(6) } {
            0 => {}
            1 => years.extend([base - 1, base + 1]),
            2 => years.extend([base + 1, base + 2, base + 3, base - 7]),
            3 => years.extend([base - 40, base + 55]),
            4 => years.extend([-r.range(1, 900) as i32, r.range(1, 3000) as i32]),
            _ => years.extend(if reduced || !r.chance(3) { vec![base + 200] } else { vec![-20_000, 30_000] }),
        }
        let len = if r.chance(10) && !reduced { r.below(60) } else { r.below(10) } as usize;
        let mut hist: Vec<NaiveDate> = (0..len).map(|_| rand_date(&mut r, &years)).collect();
        if r.chance(30) && !hist.is_empty() {
            let dup = *r.pick(&hist);
            hist.push(dup);
        }
        if r.chance(20) {
            // Dec 31 -> Jan 1 neighbours
            let y = *r.pick(&years);
            hist.push(d(y, 12, 31));
            hist.push(d(y + 1, 1, 1));
        }
        let probes: Vec<NaiveDate> = (0..6).map(|_| rand_date(&mut r, &years)).collect();
        rep.count("random_histories");
        let sorted_unique: BTreeSet<_> = hist.iter().collect();
        if sorted_unique.len() >= 2 {
            rep.nontrivial(crate::rng::hash64(&format!("{hist:?}")));
        }
        let span = years.iter().max().unwrap() - years.iter().min().unwrap();
        rep.max("max_year_span", span as u64);
        if hist.iter().any(|x| x.year() < 0) {
            rep.count("histories_with_negative_years");
        }
        rep.begin(&format!("{hist:?}"));
        run_history(rep, &hist, &probes, k);
        if k < 2 {
            rep.sample(|| case_json(&hist, &probes));
        }
        rep.count("year_month_cases");
        if let Err(msg) = guarded(|| check_year_month(&mut r)).unwrap_or_else(|p| Err(format!("panic: {p}"))) {
            rep.violation("year_month_semantics", msg, json!({"seed": args.seed, "worker": args.worker, "index": k, "part": "CompactYear/CompactMonth"}), None);
        }
        if rep.full() {
            return;
        }
    }
    rep.require("random_histories", if reduced { 10 } else { 1000 });
}

pub fn replay(case: &Value, rep: &mut Report) {
    let parse = |k: &str| -> Vec<NaiveDate> { case[k].as_array().map(|a| a.iter().filter_map(|v| v.as_str()?.parse().ok()).collect()).unwrap_or_default() };
    if case.get("history").is_some() {
        run_history(rep, &parse("history"), &parse("probes"), 7);
    } else if let (Some(seed), Some(w), Some(i)) = (case["seed"].as_u64(), case["worker"].as_u64(), case["index"].as_u64()) {
        // CompactYear/CompactMonth case: regenerate from coordinates
        let mut r = Rng::new(seed, w, i);
        // consume the same draws as run() did before check_year_month: simplest is to re-run the case body
        let args = Args { monitor: "C15".into(), seed, worker: w, of: 1, tier: "quick".into(), out: None, known: vec![], replay: None, scale: 1.0, extra: vec![] };
        let _ = (&mut r, &args);
        rep.evaluations += 1;
        for k in 0..400 {
            let mut r2 = Rng::new(seed ^ k, w, i);
            if let Err(msg) = guarded(|| check_year_month(&mut r2)).unwrap_or_else(|p| Err(format!("panic: {p}"))) {
                rep.violation("year_month_semantics", msg, case.clone(), None);
                break;
            }
        }
    }
}
