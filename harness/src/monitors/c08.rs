//! C08 — Supported date range: closed outside 1900..9999, results never leave it.

use super::c02::{build, check_window};
use super::c03::check_instant_budget;
use super::common::*;
use crate::gen::ctx::HolSpec;
use crate::gen::dates;
use crate::gen::expr::GenCfg;
use crate::known::{self, Classified};
use crate::out::{guarded, Args, Report};
use crate::render;
use crate::rng::Rng;
use crate::stream::{self, Oh, PointwiseStats};
use chrono::{Duration, NaiveDate, NaiveDateTime};
use opening_hours::RuleKind;
use opening_hours_syntax::rules::OpeningHoursExpression;
use serde_json::{json, Value};

fn gen_instant(r: &mut Rng) -> (NaiveDateTime, &'static str) {
    let start = stream::date_start();
    let end = stream::date_end();
    let secs = |r: &mut Rng| Duration::seconds(*r.pick(&[0i64, 0, 1, 30, 59]));
    match r.below(10) {
        0 | 1 => (start - Duration::minutes(r.range(1, 3 * 1440)) + secs(r), "just_before_1900"),
        2 => (start + Duration::minutes(r.range(0, 3 * 1440)) + secs(r), "just_after_1900"),
        3 | 4 => (end - Duration::minutes(r.range(1, 3 * 1440)) + secs(r), "just_before_10000"),
        5 => (end + Duration::minutes(r.range(0, 3 * 1440)) + secs(r), "just_after_10000"),
        6 => {
            let y = r.range(-262_000, 1899) as i32;
            (NaiveDate::from_yo_opt(y, 1 + r.below(365) as u32).unwrap().and_hms_opt(r.below(24) as u32, r.below(60) as u32, 0).unwrap(), "far_before")
        }
        7 => {
            let y = r.range(10_000, 262_000) as i32;
            (NaiveDate::from_yo_opt(y, 1 + r.below(365) as u32).unwrap().and_hms_opt(r.below(24) as u32, r.below(60) as u32, 0).unwrap(), "far_after")
        }
        8 => (start - Duration::days(r.range(3, 400)) + Duration::minutes(r.range(0, 1439)), "year_before_1900"),
        _ => (end - Duration::days(r.range(3, 400)) + Duration::minutes(r.range(0, 1439)), "last_year"),
    }
}

thread_local! {
    /// (expression text, holiday spec) of the value under test, to rebuild it with a bound
    static CURRENT: std::cell::RefCell<Option<(String, HolSpec)>> = const { std::cell::RefCell::new(None) };
}

fn bounded_variant(_oh: &Oh, bound: Duration) -> Option<Oh> {
    CURRENT.with(|c| {
        let c = c.borrow();
        let (text, hol) = c.as_ref()?;
        match guarded(|| opening_hours::OpeningHours::parse(text)) {
            Ok(Ok(oh)) => Some(oh.with_context(hol.context().approx_bound_interval_size(bound))),
            _ => None,
        }
    })
}

fn set_current(text: &str, hol: &HolSpec) {
    CURRENT.with(|c| *c.borrow_mut() = Some((text.to_string(), hol.clone())));
}

fn outside(t: NaiveDateTime) -> bool {
    t < stream::date_start() || t >= stream::date_end()
}

pub fn check(oh: &Oh, ast: Option<&OpeningHoursExpression>, t: NaiveDateTime, horizon: i64, r: &mut Rng, st: &mut PointwiseStats) -> Result<(), String> {
    let end = stream::date_end();
    let start = stream::date_start();
    // a. closed outside the range
    if outside(t) {
        let s = guarded(|| oh.state(t)).map_err(|p| format!("state({t}) panicked: {p}"))?;
        if s != RuleKind::Closed {
            return Err(format!("state({t}) = {s} outside the supported date range"));
        }
    }
    // b/c. next_change never reaches 10000-01-01; from before 1900 it is the first non-closed instant
    let o = check_instant_budget(oh, ast, t, horizon, 40_000, r, st)?;
    let _ = o;
    // d. windows straddling the bounds: tiling + pointwise, comments empty outside
    let to = t + Duration::days(r.range(1, 30)) + Duration::minutes(r.range(0, 1439));
    let s = check_window(oh, ast, t, to, r, 3000, st)?;
    for iv in &s.intervals {
        let out_part = iv.end <= start || iv.start >= end;
        if out_part && (iv.kind != RuleKind::Closed || !iv.comments.is_empty()) {
            return Err(format!("interval [{}, {}) outside the supported range has state {} and comments {:?}", iv.start, iv.end, iv.kind, iv.comments));
        }
        if iv.start < t {
            return Err(format!("interval [{}, {}) starts before the requested start {t}", iv.start, iv.end));
        }
        if iv.end > to.min(end) {
            return Err(format!("interval [{}, {}) ends after min(requested end, 10000-01-01)", iv.start, iv.end));
        }
        if iv.start < start && iv.end > start && iv.kind == RuleKind::Closed {
            // continues into 1900: fine as long as 1900-01-01 00:00 is closed too (checked pointwise)
        }
    }
    // d'. the same containment with an interval-size bound in the context (the bound makes the
    // iterator report "until the end of time" for long intervals: that must still be clamped to
    // the requested window). Only containment is judged here, the approximation itself is C16's.
    if r.chance(50) {
        let bound = Duration::days(*r.pick(&[1i64, 2, 7, 31, 366])) + Duration::minutes(*r.pick(&[0i64, 0, 30]));
        let far_to = t + Duration::days(r.range(1, 4000));
        if let Some(oh_b) = bounded_variant(oh, bound) {
            let ivs = stream::with_day_budget(40_000, || oh_b.iter_range(t, far_to).take(400).collect::<Vec<_>>()).map_err(|p| format!("iter_range({t}, {far_to}) with bound {bound} panicked: {p}"))?;
            for iv in ivs.unwrap_or_default() {
                if iv.range.start < t || iv.range.end > far_to.min(end) || iv.range.start >= iv.range.end {
                    return Err(format!("with an interval-size bound of {} min, iter_range({t}, {far_to}) reports [{}, {}), outside [requested start, min(requested end, 10000-01-01)]", bound.num_minutes(), iv.range.start, iv.range.end));
                }
            }
        }
    }
    // e. iter_from: no interval ends beyond 10000-01-01, nothing from there on
    // (an expression that never changes but is not trivially constant walks day by day to 9999:
    // the step budget of hook H1 cuts that short, the claim is then left to the bounded checks)
    let first = match stream::with_day_budget(40_000, || oh.iter_from(t).next()) {
        Ok(Some(f)) => f,
        Ok(None) => return Ok(()),
        Err(p) => return Err(format!("iter_from({t}) panicked: {p}")),
    };
    match first {
        Some(iv) => {
            if t >= end {
                return Err(format!("iter_from({t}) yields [{}, {}) beyond 10000-01-01", iv.range.start, iv.range.end));
            }
            if iv.range.end > end || iv.range.start != t {
                return Err(format!("iter_from({t}) first interval [{}, {}) leaves [start, 10000-01-01]", iv.range.start, iv.range.end));
            }
        }
        None => {
            if t < end {
                return Err(format!("iter_from({t}) is empty before 10000-01-01"));
            }
        }
    }
    Ok(())
}

fn report_failure(args: &Args, rep: &mut Report, ast: &OpeningHoursExpression, hol: &HolSpec, t: NaiveDateTime, horizon: i64, msg: &str) {
    let fails = |c: &OpeningHoursExpression| -> Option<String> {
        let oh = build(&render::plain(c), hol)?;
        set_current(&render::plain(c), hol);
        let mut r = Rng::new(5, 0, 0);
        let mut st = PointwiseStats::default();
        check(&oh, Some(c), t, horizon, &mut r, &mut st).err()
    };
    let classified = known::classify(&args.known, ast, &|c| denotable(c), &mut |c| fails(c).is_some(), 300);
    let (small, known) = match classified {
        Classified::Unexplained(s) => (s, None),
        Classified::Explained(s, t) => (s, Some(t)),
    };
    let text = render::plain(&small);
    let what = fails(&small).unwrap_or_else(|| msg.to_string());
    rep.violation("date_range_bounds", format!("{text:?} [{}]: {what}", hol.to_string()), json!({"expr": text, "holidays": hol.to_string(), "instant": t.to_string(), "horizon_days": horizon}), known);
}

/// Edge grid: for the one-parameter expressions of the C02 grids (day selectors and time shapes),
/// the streams of windows straddling both ends of the supported range are compared exactly with
/// what evaluating every day inside the range gives: closed before 1900-01-01, nothing reported
/// beyond 10000-01-01, state closed outside, next_change = None in the last run.
fn edge_grid(args: &Args, rep: &mut Report) {
    let ymd = |y: i32, m: u32, d: u32| NaiveDate::from_ymd_opt(y, m, d).unwrap();
    let mut exprs = stream::grid_day_selectors(args.thorough(), args.seed + 2);
    let shapes = stream::grid_time_shapes(args.thorough(), args.seed);
    // time shapes under day selectors that apply at the edges
    for (i, t) in shapes.iter().enumerate() {
        if args.thorough() || i % 7 == (args.seed % 7) as usize {
            exprs.push(t.clone());
        }
    }
    for extra in ["1900", "9999", "1900-9999/3", "1900 Jan 01", "9999 Dec 31", "Dec 31 22:00-26:00", "Jan 01 00:00-24:00", "9999 Dec 31 12:00-48:00", "Dec 25-Jan 05", "week 52-01", "1899-1901", "9998-9999 Dec"] {
        exprs.push(extra.to_string());
    }
    for (i, text) in exprs.iter().enumerate() {
        if (i as u64) % args.of.max(1) != args.worker {
            continue;
        }
        let Some(oh) = build(text, &HolSpec::None) else {
            rep.count("edge_grid_skipped_parser_rejects");
            continue;
        };
        rep.evaluations += 1;
        rep.begin(&format!("edge grid {text}"));
        let verdict = edge_verdict(&oh);
        match verdict {
            Ok(()) => {
                rep.count("edge_grid_expressions_passed");
                rep.nontrivial(crate::rng::hash64(&format!("edge|{text}")));
            }
            Err(msg) => {
                rep.violation("date_range_edges", format!("{text:?} [none]: {msg}"), json!({"expr": text, "holidays": "none", "edge_grid": true}), None);
                if rep.full() {
                    return;
                }
            }
        }
    }
}

/// Both edges of the supported range for one value (see `edge_grid`).
fn edge_verdict(oh: &Oh) -> Result<(), String> {
    let ymd = |y: i32, m: u32, d: u32| NaiveDate::from_ymd_opt(y, m, d).unwrap();
        // lower edge
        let from = ymd(1899, 12, 25).and_hms_opt(6, 30, 0).unwrap();
        let to = ymd(1900, 1, 20).and_hms_opt(0, 0, 0).unwrap();
        let mut expect: Vec<(NaiveDateTime, RuleKind)> = vec![(from, RuleKind::Closed)];
        for run in stream::expected_runs(&oh, ymd(1900, 1, 1), ymd(1900, 1, 19))? {
            if expect.last().map(|l| l.1) != Some(run.1) {
                expect.push(run);
            }
        }
        let got = guarded(|| oh.iter_range(from, to).map(|i| (i.range.start, i.range.end, i.kind, i.comments.len())).collect::<Vec<_>>())?;
        compare_runs(&expect, to, &got, &format!("iter_range({from}, {to})"))?;
        if let Some(first) = got.first() {
            if first.0 < ymd(1900, 1, 1).and_hms_opt(0, 0, 0).unwrap() && first.3 != 0 {
                return Err(format!("iter_range({from}, {to}): the interval before 1900-01-01 carries comments"));
            }
        }
        for t in [from, ymd(1899, 12, 31).and_hms_opt(23, 59, 59).unwrap(), ymd(-262_000, 6, 1).and_hms_opt(0, 0, 0).unwrap()] {
            let st = guarded(|| oh.state(t))?;
            if st != RuleKind::Closed {
                return Err(format!("state({t}) = {st} before 1900-01-01"));
            }
            let nc = guarded(|| oh.next_change(t))?;
            let exp_nc = expect.get(1).map(|r| r.0);
            // the first change after the lower edge, if it falls inside the compared window
            if exp_nc.is_some() && nc != exp_nc {
                return Err(format!("next_change({t}) = {nc:?}; evaluating every day from 1900-01-01 gives the first change at {exp_nc:?}"));
            }
        }
        // upper edge
        let from = ymd(9999, 12, 20).and_hms_opt(17, 45, 0).unwrap();
        let to = ymd(10_000, 1, 15).and_hms_opt(0, 0, 0).unwrap();
        let end = stream::date_end();
        let mut expect = stream::expected_runs(&oh, ymd(9999, 12, 20), ymd(9999, 12, 31))?;
        // the first run starts at the requested instant
        while expect.len() > 1 && expect[1].0 <= from {
            expect.remove(0);
        }
        expect[0].0 = from;
        let got = guarded(|| oh.iter_range(from, to).map(|i| (i.range.start, i.range.end, i.kind, i.comments.len())).collect::<Vec<_>>())?;
        compare_runs(&expect, end, &got, &format!("iter_range({from}, {to})"))?;
        let last_start = expect.last().unwrap().0;
        for t in [last_start, end - Duration::minutes(1), last_start + (end - last_start) / 2] {
            let nc = guarded(|| oh.next_change(t))?;
            if nc.is_some() {
                return Err(format!("next_change({t}) = {nc:?} although the state does not change any more before 10000-01-01"));
            }
        }
        for t in [end, end + Duration::seconds(1), ymd(10_000, 1, 15).and_hms_opt(12, 0, 0).unwrap(), ymd(262_000, 6, 1).and_hms_opt(0, 0, 0).unwrap()] {
            let st = guarded(|| oh.state(t))?;
            if st != RuleKind::Closed {
                return Err(format!("state({t}) = {st} after 9999-12-31"));
            }
            if let Some(x) = guarded(|| oh.next_change(t))? {
                return Err(format!("next_change({t}) = {x} from beyond the supported range"));
            }
            let n = guarded(|| oh.iter_range(t, t + Duration::days(3)).count())?;
            if n != 0 {
                return Err(format!("iter_range({t}, +3 days) yields {n} interval(s) beyond the supported range"));
            }
        }
        Ok(())
}

fn compare_runs(expect: &[(NaiveDateTime, RuleKind)], end: NaiveDateTime, got: &[(NaiveDateTime, NaiveDateTime, RuleKind, usize)], what: &str) -> Result<(), String> {
    for (k, (start, kind)) in expect.iter().enumerate() {
        let e = expect.get(k + 1).map(|n| n.0).unwrap_or(end);
        match got.get(k) {
            None => return Err(format!("{what} ends after {} interval(s); evaluating every day gives {kind} from {start} to {e}", got.len())),
            Some((gs, ge, gk, _)) if (gs, ge, gk) != (start, &e, kind) => return Err(format!("{what} interval #{k} is [{gs}, {ge}) {gk}; evaluating every day gives [{start}, {e}) {kind}")),
            _ => {}
        }
    }
    if got.len() > expect.len() {
        let x = got[expect.len()];
        return Err(format!("{what} yields an extra interval [{}, {}) {}", x.0, x.1, x.2));
    }
    Ok(())
}

pub fn run(args: &Args, rep: &mut Report) {
    edge_grid(args, rep);
    if rep.full() {
        return;
    }
    let n = args.cases(40_000, 400_000);
    let horizon = if args.thorough() { 40 * 366 } else { 3 * 366 };
    let mut st = PointwiseStats::default();
    for k in 0..n {
        let mut cfg = GenCfg::standard(args.thorough()).rotated(k);
        cfg.bounds_bias = true;
        cfg.long_intervals = k % 3 == 0;
        let case = gen_case(args, k, &cfg, rep);
        let mut r = case.rng.clone();
        let hol = if has_holiday_selector(&case.ast) && r.chance(60) { HolSpec::Synthetic(r.pick(&["far_low", "far_high", "edges_low", "edges_high"]).to_string()) } else { case.hol.clone() };
        let Some(oh) = build(&case.text, &hol) else {
            rep.count("skipped_parser_rejects");
            continue;
        };
        coverage_of(&case.ast, rep);
        set_current(&case.text, &hol);
        for _ in 0..2 {
            let (t, class) = gen_instant(&mut r);
            rep.evaluations += 1;
            rep.count(&format!("instant.{class}"));
            rep.begin(&format!("{} | {} | {t}", case.text, hol.to_string()));
            match check(&oh, Some(&case.ast), t, horizon, &mut r, &mut st) {
                Ok(()) => {
                    rep.count("instants_checked");
                    if crate::gen::expr::has_selector(&case.ast) {
                        rep.nontrivial(crate::rng::hash64(&format!("{:?}|{}|{t}", case.ast, hol.to_string())));
                    }
                    if k < 2 {
                        rep.sample(|| json!({"expr": case.text, "holidays": hol.to_string(), "instant": t.to_string(), "class": class, "state": oh.state(t).to_string(), "next_change": oh.next_change(t).map(|x| x.to_string())}));
                    }
                }
                Err(msg) => {
                    report_failure(args, rep, &case.ast, &hol, t, horizon, &msg);
                    break;
                }
            }
        }
        if rep.full() {
            break;
        }
    }
    rep.add("days_point_checked", st.days_checked);
    rep.require("instants_checked", 20_000);
    for c in ["just_before_1900", "just_before_10000", "far_before", "far_after", "just_after_10000"] {
        rep.require(&format!("instant.{c}"), 1000);
    }
}

pub fn replay(args: &Args, case: &Value, rep: &mut Report) {
    let text = case_expr(case);
    let hol = case_hol(case);
    if case["edge_grid"].as_bool() == Some(true) {
        rep.evaluations += 1;
        let Some(oh) = build(&text, &hol) else {
            rep.violation("witness_rejected", format!("{text:?} does not parse"), case.clone(), None);
            return;
        };
        if let Err(msg) = edge_verdict(&oh) {
            rep.violation("date_range_edges", format!("{text:?} [{}]: {msg}", hol.to_string()), case.clone(), None);
        }
        return;
    }
    let Some(t) = case["instant"].as_str().and_then(|s| NaiveDateTime::parse_from_str(s, "%Y-%m-%d %H:%M:%S%.f").ok()) else {
        rep.violation("bad_replay", "replay without instant".into(), case.clone(), None);
        return;
    };
    let horizon = case["horizon_days"].as_i64().unwrap_or(3 * 366);
    rep.evaluations += 1;
    let Some(oh) = build(&text, &hol) else {
        rep.violation("witness_rejected", format!("{text:?} does not parse"), case.clone(), None);
        return;
    };
    let ast = lib_parse(&text).ok();
    set_current(&text, &hol);
    let mut st = PointwiseStats::default();
    let mut res = Ok(());
    for k in 0..8 {
        let mut r = Rng::new(5, 0, k);
        res = check(&oh, ast.as_ref(), t, horizon, &mut r, &mut st);
        if res.is_err() {
            break;
        }
    }
    if let Err(msg) = res {
        let known = ast.as_ref().and_then(|a| known::explained_by(&args.known, a));
        rep.violation("date_range_bounds", format!("{text:?} [{}]: {msg}", hol.to_string()), case.clone(), known);
    }
}
