//! C13 — Normalization is idempotent and deterministic.

use super::c07::canonical_cfg;
use super::common::*;
use crate::gen::ctx::HolSpec;
use crate::gen::expr;
use crate::known::{self, Classified};
use crate::out::{guarded, Args, Report};
use crate::render;
use crate::rng::Rng;
use opening_hours_syntax::rules::OpeningHoursExpression;
use serde_json::{json, Value};

pub fn check(e: &OpeningHoursExpression, hol: &HolSpec, r: &mut Rng) -> Result<bool, String> {
    let n1 = guarded(|| e.clone().normalize()).map_err(|p| format!("normalize panicked: {p}"))?;
    let n2 = guarded(|| n1.clone().normalize()).map_err(|p| format!("normalizing the normal form panicked: {p}"))?;
    if n2 != n1 {
        return Err(format!("normalize is not idempotent: first pass {:?}, second pass {:?}", n1.to_string(), n2.to_string()));
    }
    if n2.to_string() != n1.to_string() {
        return Err(format!("normal forms compare equal but print differently: {:?} vs {:?}", n1.to_string(), n2.to_string()));
    }
    // equal expressions (the same value again, a clone built independently by reparsing the same
    // string, and one normalised on another thread) give equal results
    let again = guarded(|| e.clone().normalize()).map_err(|p| format!("normalize panicked: {p}"))?;
    if again != n1 {
        return Err(format!("two normalisations of the same value differ: {:?} vs {:?}", n1.to_string(), again.to_string()));
    }
    let text = render::plain(e);
    if let Ok(reparsed) = lib_parse(&text) {
        if reparsed == *e {
            let other = guarded(|| reparsed.normalize()).map_err(|p| format!("normalize panicked: {p}"))?;
            if other != n1 {
                return Err(format!("normalising an equal expression (reparsed from the same string) gives {:?} instead of {:?}", other.to_string(), n1.to_string()));
            }
        }
    }
    if r.chance(10) {
        let e2 = e.clone();
        let from_thread = std::thread::spawn(move || e2.normalize()).join().map_err(|_| "normalize panicked on another thread".to_string())?;
        if from_thread != n1 {
            return Err(format!("normalising on another thread gives {:?} instead of {:?}", from_thread.to_string(), n1.to_string()));
        }
    }
    // the normal form is printable and reparseable to an equivalent expression (C06 oracle): the
    // value held by `OpeningHours::normalize()` against the value parsed from its print-out
    let (printed, _) = super::c06::normal_form_roundtrip(e, hol, r, 0)?;
    let _ = printed;
    Ok(n1 != *e)
}

fn report_failure(args: &Args, rep: &mut Report, ast: &OpeningHoursExpression, hol: &HolSpec, msg: &str) {
    let fails = |c: &OpeningHoursExpression| -> Option<String> {
        let mut r = Rng::new(5, 0, 0);
        check(c, hol, &mut r).err()
    };
    let classified = known::classify(&args.known, ast, &|c| denotable(c), &mut |c| fails(c).is_some(), 500);
    let (small, known) = match classified {
        Classified::Unexplained(s) => (s, None),
        Classified::Explained(s, t) => (s, Some(t)),
    };
    let text = render::plain(&small);
    let what = fails(&small).unwrap_or_else(|| msg.to_string());
    rep.violation("normalization_idempotence", format!("{text:?}: {what}"), json!({"expr": text, "holidays": hol.to_string()}), known);
}


/// String-level idempotence / determinism, for parsed values the AST generator does not build.
pub fn check_text(text: &str) -> Result<bool, String> {
    let Ok(e) = lib_parse(text) else { return Ok(false) };
    let n1 = guarded(|| e.clone().normalize()).map_err(|p| format!("normalize panicked: {p}"))?;
    let n2 = guarded(|| n1.clone().normalize()).map_err(|p| format!("normalizing the normal form panicked: {p}"))?;
    if n2 != n1 || n2.to_string() != n1.to_string() {
        return Err(format!("normalize is not idempotent: first pass {:?}, second pass {:?}", n1.to_string(), n2.to_string()));
    }
    let again = lib_parse(text).map_err(|e| format!("second parse failed: {e}"))?;
    let n3 = guarded(|| again.normalize()).map_err(|p| format!("normalize panicked: {p}"))?;
    if n3 != n1 {
        return Err(format!("normalising an equal expression (parsed from the same string) gives {:?} instead of {:?}", n3.to_string(), n1.to_string()));
    }
    // the printed normal form parses, and normalizing what it parses to changes nothing any more
    let printed = n1.to_string();
    let back = lib_parse(&printed).map_err(|e| format!("the normal form prints as {printed:?}, which does not parse back: {e}"))?;
    let n4 = guarded(|| back.normalize()).map_err(|p| format!("normalize panicked: {p}"))?;
    let _ = n4;
    Ok(true)
}

fn mutated_strings(args: &Args, rep: &mut Report) {
    let samples = super::c04::sample_lines();
    let n = args.cases(40_000, 600_000);
    for k in 0..n {
        if rep.full() || samples.is_empty() {
            return;
        }
        let mut r = Rng::new(args.seed ^ 0x6d77, args.worker, k);
        let base = if k % 2 == 0 {
            samples[r.below(samples.len() as u64) as usize].clone()
        } else {
            let cfg = super::c07::canonical_cfg(false, k);
            let ast = expr::gen_expr(&mut r, &cfg);
            let mut v = render::Variants::random(Rng::new(args.seed ^ 13, args.worker, k));
            render::expr(&mut v, &ast)
        };
        let text = super::c04::mutate(&mut r, &base);
        rep.begin(&text);
        match check_text(&text) {
            Ok(true) => {
                rep.evaluations += 1;
                rep.count("mutated_strings_checked");
                rep.nontrivial(crate::rng::hash64(&text));
            }
            Ok(false) => rep.count("mutated_strings_rejected_by_parser"),
            Err(msg) => rep.violation("normalization_idempotence", format!("{text:?}: {msg}"), json!({"expr": text, "holidays": "none", "text_level": true}), None),
        }
    }
}

pub fn run(args: &Args, rep: &mut Report) {
    mutated_strings(args, rep);
    if rep.full() {
        return;
    }
    let n = args.cases(480_000, 4_000_000);
    // size family shared with C07: K pairwise different rules and a late overlapping one
    {
        let mut ks: Vec<usize> = (1..=64).collect();
        for e in 7..=12 {
            ks.extend([(1usize << e) - 1, 1 << e, (1 << e) + 1]);
        }
        let mut idx = 0u64;
        for k in ks {
            for variant in 0..9u64 {
                // the second pass runs on a normal form joined by ';', whose paving grows with every
                // rule (9 s at 513 rules, 53 s at 1025): quick stops at 257 (129 for the ';' variants),
                // thorough at 2049 (1025); C07 climbs to 4097 with the cheap variant
                let top = match (args.thorough(), variant / 3) {
                    (false, 0) => 257,
                    (false, _) => 129,
                    (true, 0) => 2049,
                    (true, _) => 1025,
                };
                if k > top {
                    continue;
                }
                idx += 1;
                if (idx - 1) % args.of.max(1) != args.worker {
                    continue;
                }
                let text = super::c07::many_rules_text(k, variant);
                let Ok(ast) = lib_parse(&text) else { continue };
                rep.evaluations += 1;
                rep.begin(&format!("many rules: K = {k}, variant {variant}"));
                let mut r = Rng::new(args.seed, 0x512e, idx);
                match check(&ast, &HolSpec::None, &mut r) {
                    Ok(_) => {
                        rep.count("many_rules_expressions");
                        rep.max("many_rules_max_rules", k as u64 + 1);
                    }
                    Err(msg) => {
                        let short: String = msg.chars().take(600).collect();
                        rep.violation("normalization_idempotence", format!("{} rules (size family K = {k}, variant {variant}): {short}", k + 1), json!({"expr": text, "holidays": "none"}), None);
                        if rep.full() {
                            return;
                        }
                    }
                }
            }
        }
    }
    // wide selector lists: one rule with n disjoint ranges in one selector and a second rule
    // starting mid-column / on a cut / spanning several / in a gap (2n cuts in one paving dimension)
    for (i, (n, variant)) in super::c07::wide_ladder(args.thorough()).into_iter().enumerate() {
        if (i as u64) % args.of.max(1) != args.worker || rep.full() {
            continue;
        }
        let (text, _) = super::c07::wide_list_text(n, variant);
        let Ok(ast) = lib_parse(&text) else { continue };
        rep.evaluations += 1;
        rep.begin(&format!("wide list: n = {n}, variant {variant}"));
        let mut r = Rng::new(args.seed, 0x51de, i as u64);
        match check(&ast, &HolSpec::None, &mut r) {
            Ok(_) => {
                rep.count("wide_list_expressions");
                rep.max("wide_list_max_ranges", n as u64);
            }
            Err(msg) => {
                let short: String = msg.chars().take(600).collect();
                rep.violation("normalization_idempotence", format!("one rule with {n} disjoint ranges in one selector and a second rule (variant {variant}): {short}"), json!({"expr": text, "holidays": "none"}), None);
            }
        }
    }
    // combination grid: pairs / triples of canonical rules over plain and wrapping ranges
    for (i, text) in normalize_grid(args.thorough(), args.seed + 1).iter().enumerate() {
        if (i as u64) % args.of.max(1) != args.worker {
            continue;
        }
        let Ok(ast) = lib_parse(text) else { continue };
        rep.evaluations += 1;
        rep.begin(text);
        let mut r = Rng::new(args.seed, 0x9c1d, i as u64);
        match check(&ast, &HolSpec::None, &mut r) {
            Ok(_) => rep.count("combination_grid_expressions"),
            Err(msg) => {
                report_failure(args, rep, &ast, &HolSpec::None, &msg);
                if rep.full() {
                    return;
                }
            }
        }
    }
    // exhaustive part: every value of every atomic field, alone and followed by a second rule
    for (i, ast) in atomic_asts().iter().enumerate() {
        if (i as u64) % args.of.max(1) != args.worker {
            continue;
        }
        let mut r = Rng::new(args.seed, 0xa70, i as u64);
        let mut variants = vec![ast.clone()];
        if let Ok(second) = lib_parse("Mo-Fr 09:00-17:00") {
            let mut two = ast.clone();
            two.rules.extend(second.rules);
            variants.push(two);
        }
        for v in variants {
            rep.evaluations += 1;
            match check(&v, &HolSpec::None, &mut r) {
                Ok(_) => rep.count("atomic_values_enumerated"),
                Err(msg) => {
                    report_failure(args, rep, &v, &HolSpec::None, &msg);
                    if rep.full() {
                        return;
                    }
                }
            }
        }
    }
    for k in 0..n {
        let cfg = canonical_cfg(args.thorough(), k);
        let case = gen_case(args, k, &cfg, rep);
        let mut r = case.rng.clone();
        rep.evaluations += 1;
        rep.begin(&case.text);
        if lib_parse(&case.text).ok().as_ref() != Some(&case.ast) {
            rep.count("skipped_parser_differs");
            continue;
        }
        coverage_of(&case.ast, rep);
        match check(&case.ast, &case.hol, &mut r) {
            Ok(changed) => {
                rep.count("expressions_checked");
                if changed {
                    rep.count("normal_form_differs_from_input");
                    rep.nontrivial(crate::rng::hash64(&format!("{:?}", case.ast)));
                }
                if k < 3 {
                    rep.sample(|| json!({"expr": case.text, "normal_form": case.ast.clone().normalize().to_string()}));
                }
            }
            Err(msg) => {
                report_failure(args, rep, &case.ast, &case.hol, &msg);
                if rep.full() {
                    break;
                }
            }
        }
    }
    for (i, text) in corpus().iter().enumerate() {
        if (i as u64) % args.of.max(1) != args.worker {
            continue;
        }
        let Ok(ast) = lib_parse(text) else { continue };
        if !denotable(&ast) {
            continue;
        }
        let hol = if has_holiday_selector(&ast) { HolSpec::Country("FR".into()) } else { HolSpec::None };
        let mut r = Rng::new(args.seed, 0xc0c0, i as u64);
        rep.evaluations += 1;
        match check(&ast, &hol, &mut r) {
            Ok(_) => rep.count("corpus_expressions_checked"),
            Err(msg) => rep.violation("normalization_idempotence", format!("{text:?} (from the repository's sample/test sources): {msg}"), json!({"expr": text, "holidays": hol.to_string()}), known::explained_by(&args.known, &ast)),
        }
    }
    rep.require("expressions_checked", 20_000);
    rep.require("normal_form_differs_from_input", 5_000);
}

pub fn replay(args: &Args, case: &Value, rep: &mut Report) {
    let text = case_expr(case);
    let hol = case_hol(case);
    rep.evaluations += 1;
    let ast = match lib_parse(&text) {
        Ok(a) => a,
        Err(e) => {
            rep.violation("witness_rejected", format!("{text:?}: {e}"), case.clone(), None);
            return;
        }
    };
    let mut r = Rng::new(5, 0, 0);
    if case["text_level"].as_bool() == Some(true) {
        if let Err(msg) = check_text(&text) {
            rep.violation("normalization_idempotence", format!("{text:?}: {msg}"), case.clone(), None);
        }
        return;
    }
    if let Err(msg) = check(&ast, &hol, &mut r) {
        let known = known::explained_by(&args.known, &ast);
        rep.violation("normalization_idempotence", format!("{text:?}: {msg}"), case.clone(), known);
    }
}
