//! C06 — Printed expressions parse back to an equivalent expression.

use super::c02::build;
use super::common::*;
use crate::evalcmp;
use crate::gen::ctx::HolSpec;
use crate::gen::expr::{self, GenCfg};
use crate::known::{self, Classified};
use crate::out::{guarded, Args, Report};
use crate::render;
use crate::rng::Rng;
use opening_hours_syntax::rules::OpeningHoursExpression;
use serde_json::{json, Value};

/// Print `e`, parse the result, compare evaluation. `what` names the form for messages.
pub fn roundtrip(e: &OpeningHoursExpression, hol: &HolSpec, r: &mut Rng, sweep: i64, what: &str) -> Result<(String, bool), String> {
    let printed = guarded(|| e.to_string()).map_err(|p| format!("printing the {what} panicked: {p}"))?;
    let reparsed = match lib_parse(&printed) {
        Ok(x) => x,
        Err(err) => return Err(format!("the {what} prints as {printed:?}, which does not parse back: {err}")),
    };
    let same_ast = reparsed == *e;
    let a = build_from_ast(e, hol);
    let b = build_from_ast(&reparsed, hol);
    let days = evalcmp::comparison_days(&[e, &reparsed], hol, r, 48, 32, sweep);
    match evalcmp::first_difference(&a, &b, &days, true) {
        Err(p) => Err(format!("{what} {printed:?}: {p}")),
        Ok(Some((_, diff))) => Err(format!("the {what} prints as {printed:?}, which evaluates differently {diff} (original vs reparsed)")),
        Ok(None) => Ok((printed, same_ast)),
    }
}

/// An `OpeningHours` for an AST value. The library offers no constructor from an expression, so
/// the value is obtained by parsing the harness rendering (checked to denote exactly `e`).
pub fn build_from_ast(e: &OpeningHoursExpression, hol: &HolSpec) -> crate::stream::Oh {
    build(&render::plain(e), hol).expect("denotable expression must parse")
}

/// The normal form of `e` (as held by `OpeningHours::normalize()`) prints to something that parses
/// back and evaluates identically (kinds and comment sets).
pub fn normal_form_roundtrip(e: &OpeningHoursExpression, hol: &HolSpec, r: &mut Rng, sweep: i64) -> Result<(String, bool), String> {
    let oh = build_from_ast(e, hol);
    let norm = guarded(|| oh.normalize()).map_err(|p| format!("normalize panicked: {p}"))?;
    let printed = guarded(|| norm.to_string()).map_err(|p| format!("printing the normal form panicked: {p}"))?;
    let reparsed_ast = lib_parse(&printed).map_err(|err| format!("the normal form prints as {printed:?}, which does not parse back: {err}"))?;
    let n_ast = guarded(|| e.clone().normalize()).map_err(|p| format!("normalize panicked: {p}"))?;
    let reparsed = build(&printed, hol).ok_or_else(|| format!("normal form {printed:?} rejected by OpeningHours::parse"))?;
    let days = evalcmp::comparison_days(&[&n_ast, &reparsed_ast], hol, r, 48, 32, sweep);
    if let Some((_, diff)) = evalcmp::first_difference(&norm, &reparsed, &days, true).map_err(|p| format!("normal form {printed:?}: {p}"))? {
        return Err(format!("the normal form prints as {printed:?}, which evaluates differently {diff} (normal form vs reparsed)"));
    }
    Ok((printed, reparsed_ast == n_ast))
}

/// All C06 checks on one expression (which must be denotable).
pub fn check(e: &OpeningHoursExpression, hol: &HolSpec, r: &mut Rng, sweep: i64) -> Result<(bool, bool), String> {
    let (_, same1) = roundtrip(e, hol, r, sweep, "expression")?;
    let (_, same2) = normal_form_roundtrip(e, hol, r, sweep)?;
    Ok((same1, same2))
}


/// String-level round trip, for parsed expressions that the renderer cannot produce from an AST it
/// would generate itself (short forms the parser expands, values only reachable through the
/// parser's own arithmetic, mutated sample lines): parse, print, reparse, compare the evaluation of
/// the original string and of its printed form, and the same for the normal form.
pub fn check_text(text: &str, hol: &HolSpec, r: &mut Rng) -> Result<bool, String> {
    let Ok(ast) = lib_parse(text) else { return Ok(false) };
    let printed = guarded(|| ast.to_string()).map_err(|p| format!("printing panicked: {p}"))?;
    let reparsed = lib_parse(&printed).map_err(|e| format!("prints as {printed:?}, which does not parse back: {e}"))?;
    let a = build(text, hol).ok_or("accepted by the syntax crate but rejected by OpeningHours::parse")?;
    let b = build(&printed, hol).ok_or_else(|| format!("printed form {printed:?} rejected by OpeningHours::parse"))?;
    let days = evalcmp::comparison_days(&[&ast, &reparsed], hol, r, 48, 32, 0);
    if let Some((_, diff)) = evalcmp::first_difference(&a, &b, &days, true)? {
        return Err(format!("prints as {printed:?}, which evaluates differently {diff} (original vs reparsed)"));
    }
    let norm = guarded(|| a.normalize()).map_err(|p| format!("normalize panicked: {p}"))?;
    let np = guarded(|| norm.to_string()).map_err(|p| format!("printing the normal form panicked: {p}"))?;
    let n_reparsed = lib_parse(&np).map_err(|e| format!("the normal form prints as {np:?}, which does not parse back: {e}"))?;
    let nb = build(&np, hol).ok_or_else(|| format!("normal form {np:?} rejected by OpeningHours::parse"))?;
    let days = evalcmp::comparison_days(&[&n_reparsed], hol, r, 48, 32, 0);
    if let Some((_, diff)) = evalcmp::first_difference(&norm, &nb, &days, true)? {
        return Err(format!("the normal form prints as {np:?}, which evaluates differently {diff} (normal form vs reparsed)"));
    }
    Ok(true)
}

/// Short forms and boundary values that only exist on the string side.
fn short_form_texts() -> Vec<String> {
    let months = ["Jan", "Feb", "Mar", "Apr", "May", "Jun", "Jul", "Aug", "Sep", "Oct", "Nov", "Dec"];
    let mut v = Vec::new();
    for y in ["", "1900 ", "1901 ", "2024 ", "9998 ", "9999 "] {
        for m in months {
            for (d1, d2) in [(25, 3), (31, 1), (2, 1), (15, 15), (3, 25), (29, 28), (31, 30)] {
                for tail in ["", " 10:00-12:00", ": 22:00-26:00 unknown \"c\""] {
                    v.push(format!("{y}{m} {d1}-{d2}{tail}"));
                    v.push(format!("24/7; {y}{m} {d1}-{d2}{tail}"));
                }
            }
            v.push(format!("{y}{m} 31+"));
            v.push(format!("{y}{m} 01-{m} 31"));
            v.push(format!("{y}{m}+"));
            v.push(format!("{y}{m} 30 +2 days-31"));
        }
        v.push(format!("{y}easter -2 days-{y}easter +1 day"));
        v.push(format!("{y}Dec 31 +1 day"));
        v.push(format!("{y}Jan 01 -1 day"));
        v.push(format!("{y}Dec 24-Jan 02"));
    }
    for y in ["1900", "9999", "1900-9999", "9999+", "1900+", "9998-9999/2", "9999-1900", "1900-1900/5"] {
        v.push(y.to_string());
        v.push(format!("{y} Dec 25-Jan 05"));
        v.push(format!("{y} week 53 Su"));
        v.push(format!("{y} Dec"));
    }
    v
}

fn report_failure(args: &Args, rep: &mut Report, ast: &OpeningHoursExpression, hol: &HolSpec, msg: &str) {
    let fails = |c: &OpeningHoursExpression| -> Option<String> {
        let mut r = Rng::new(5, 0, 0);
        check(c, hol, &mut r, 0).err()
    };
    let classified = known::classify(&args.known, ast, &|c| denotable(c), &mut |c| fails(c).is_some(), 400);
    let (small, known) = match classified {
        Classified::Unexplained(s) => (s, None),
        Classified::Explained(s, t) => (s, Some(t)),
    };
    let text = render::plain(&small);
    let what = fails(&small).unwrap_or_else(|| msg.to_string());
    rep.violation("print_parse_roundtrip", format!("{text:?} [{}]: {what}", hol.to_string()), json!({"expr": text, "holidays": hol.to_string()}), known);
}

pub fn run(args: &Args, rep: &mut Report) {
    let n = args.cases(360_000, 3_000_000);
    let sweep = if args.thorough() { 400 } else { 0 };
    // exhaustive part: every value of every atomic field, printed and reparsed
    for (i, ast) in atomic_asts().iter().enumerate() {
        if (i as u64) % args.of.max(1) != args.worker {
            continue;
        }
        rep.evaluations += 1;
        let mut r = Rng::new(args.seed, 0xa70, i as u64);
        match check(ast, &HolSpec::None, &mut r, 0) {
            Ok(_) => rep.count("atomic_values_enumerated"),
            Err(msg) => {
                report_failure(args, rep, ast, &HolSpec::None, &msg);
                if rep.full() {
                    return;
                }
            }
        }
    }
    for k in 0..n {
        let cfg = GenCfg::standard(args.thorough()).rotated(k);
        let case = gen_case(args, k, &cfg, rep);
        let mut r = case.rng.clone();
        rep.evaluations += 1;
        rep.begin(&case.text);
        if lib_parse(&case.text).ok().as_ref() != Some(&case.ast) || !denotable(&case.ast) {
            rep.count("skipped_parser_differs");
            continue;
        }
        coverage_of(&case.ast, rep);
        match check(&case.ast, &case.hol, &mut r, sweep) {
            Ok((same1, same2)) => {
                rep.count("roundtrips_ok");
                if same1 {
                    rep.count("reparsed_ast_identical");
                } else {
                    rep.count("reparsed_ast_differs_but_equivalent");
                }
                if !same2 {
                    rep.count("normal_form_reparse_differs_but_equivalent");
                }
                if expr::has_selector(&case.ast) {
                    rep.nontrivial(crate::rng::hash64(&format!("{:?}", case.ast)));
                }
                if k < 3 {
                    rep.sample(|| json!({"expr": case.text, "printed": case.ast.to_string(), "normal_form": case.ast.clone().normalize().to_string()}));
                }
            }
            Err(msg) => {
                report_failure(args, rep, &case.ast, &case.hol, &msg);
                if rep.full() {
                    break;
                }
            }
        }
    }
    // real-world shapes from the repository's sample file and test sources
    // string-level family: short forms, boundary values, mutated sample lines
    for (i, text) in short_form_texts().iter().enumerate() {
        if (i as u64) % args.of.max(1) != args.worker || rep.full() {
            continue;
        }
        rep.evaluations += 1;
        rep.begin(text);
        let mut r = Rng::new(args.seed, 0x7e87, i as u64);
        match check_text(text, &HolSpec::None, &mut r) {
            Ok(true) => rep.count("text_level_roundtrips_ok"),
            Ok(false) => rep.count("text_level_rejected_by_parser"),
            Err(msg) => rep.violation("print_parse_roundtrip", format!("{text:?} [none]: {msg}"), json!({"expr": text, "holidays": "none", "text_level": true}), lib_parse(text).ok().and_then(|a| known::explained_by(&args.known, &a))),
        }
    }
    {
        let samples = super::c04::sample_lines();
        let n_mut = args.cases(40_000, 600_000);
        for k in 0..n_mut {
            if rep.full() || samples.is_empty() {
                break;
            }
            let mut r = Rng::new(args.seed ^ 0x6d75, args.worker, k);
            let base = if k % 2 == 0 {
                samples[r.below(samples.len() as u64) as usize].clone()
            } else {
                let cfg = GenCfg::standard(false).rotated(k);
                let ast = expr::gen_expr(&mut r, &cfg);
                let mut v = render::Variants::random(Rng::new(args.seed ^ 9, args.worker, k));
                render::expr(&mut v, &ast)
            };
            let text = super::c04::mutate(&mut r, &base);
            rep.evaluations += 1;
            rep.begin(&text);
            match check_text(&text, &HolSpec::None, &mut r) {
                Ok(true) => {
                    rep.count("mutated_strings_roundtrips_ok");
                    rep.nontrivial(crate::rng::hash64(&text));
                }
                Ok(false) => rep.count("mutated_strings_rejected_by_parser"),
                Err(msg) => rep.violation("print_parse_roundtrip", format!("{text:?} [none]: {msg}"), json!({"expr": text, "holidays": "none", "text_level": true}), lib_parse(&text).ok().and_then(|a| known::explained_by(&args.known, &a))),
            }
        }
    }
    for (i, text) in corpus().iter().enumerate() {
        if (i as u64) % args.of.max(1) != args.worker {
            continue;
        }
        let Ok(ast) = lib_parse(text) else { continue };
        if !denotable(&ast) {
            rep.count("corpus_not_denotable_by_renderer");
            let mut r = Rng::new(args.seed, 0xc0c1, i as u64);
            if let Err(msg) = check_text(text, &HolSpec::None, &mut r) {
                rep.violation("print_parse_roundtrip", format!("{text:?} [none] (from the repository's sample/test sources): {msg}"), json!({"expr": text, "holidays": "none", "text_level": true}), known::explained_by(&args.known, &ast));
            }
            continue;
        }
        let hol = if has_holiday_selector(&ast) { crate::gen::ctx::HolSpec::Country("FR".into()) } else { crate::gen::ctx::HolSpec::None };
        let mut r = Rng::new(args.seed, 0xc0c0, i as u64);
        rep.evaluations += 1;
        match check(&ast, &hol, &mut r, 400) {
            Ok(_) => rep.count("corpus_roundtrips_ok"),
            Err(msg) => rep.violation("print_parse_roundtrip", format!("{text:?} [{}] (from the repository's sample/test sources): {msg}", hol.to_string()), json!({"expr": text, "holidays": hol.to_string()}), known::explained_by(&args.known, &ast)),
        }
    }
    rep.require("roundtrips_ok", 20_000);
}

pub fn replay(args: &Args, case: &Value, rep: &mut Report) {
    let text = case_expr(case);
    let hol = case_hol(case);
    rep.evaluations += 1;
    let ast = match lib_parse(&text) {
        Ok(a) => a,
        Err(e) => {
            rep.violation("witness_rejected", format!("{text:?}: {e}"), case.clone(), None);
            return;
        }
    };
    let mut r = Rng::new(5, 0, 0);
    // a replayed witness is evaluated through its own string
    let res = (|| -> Result<(), String> {
        let printed = guarded(|| ast.to_string()).map_err(|p| format!("printing panicked: {p}"))?;
        let reparsed = lib_parse(&printed).map_err(|e| format!("prints as {printed:?}, which does not parse back: {e}"))?;
        let a = build(&text, &hol).ok_or("witness rejected")?;
        let b = build(&printed, &hol).ok_or("printed form rejected")?;
        let days = evalcmp::comparison_days(&[&ast, &reparsed], &hol, &mut r, 100, 60, 400);
        if let Some((_, diff)) = evalcmp::first_difference(&a, &b, &days, true)? {
            return Err(format!("prints as {printed:?}, which evaluates differently {diff}"));
        }
        let n = guarded(|| ast.clone().normalize()).map_err(|p| format!("normalize panicked: {p}"))?;
        let np = n.to_string();
        lib_parse(&np).map_err(|e| format!("normal form prints as {np:?}, which does not parse back: {e}"))?;
        Ok(())
    })();
    if let Err(msg) = res {
        let known = known::explained_by(&args.known, &ast);
        rep.violation("print_parse_roundtrip", format!("{text:?} [{}]: {msg}", hol.to_string()), case.clone(), known);
    }
}
