//! C02 — Interval stream equals pointwise evaluation (no change is skipped).

use super::common::*;
use crate::gen::ctx::HolSpec;
use crate::gen::dates;
use crate::gen::expr::{self, GenCfg};
use crate::known::{self, Classified};
use crate::out::{guarded, Args, Report};
use crate::render;
use crate::rng::Rng;
use crate::stream::{self, Oh, PointwiseStats};
use chrono::{Duration, NaiveDate, NaiveDateTime};
use opening_hours::OpeningHours;
use opening_hours_syntax::rules::OpeningHoursExpression;
use serde_json::{json, Value};

pub fn build(text: &str, hol: &HolSpec) -> Option<Oh> {
    match guarded(|| OpeningHours::parse(text)) {
        Ok(Ok(oh)) => Some(oh.with_context(hol.context())),
        _ => None,
    }
}

pub fn gen_window(r: &mut Rng, ast: &OpeningHoursExpression, thorough: bool) -> (NaiveDateTime, NaiveDateTime, &'static str) {
    let ys = dates::years_of(ast);
    let minutes = dates::interesting_minutes(ast);
    let start_day = if r.chance(40) {
        let empty = compact_calendar::CompactCalendar::default();
        let days = dates::interesting_days(ast, &empty, &empty, r, 40);
        if days.is_empty() { dates::random_day(r, &ys) } else { *r.pick(&days) }
    } else {
        dates::random_day(r, &ys)
    };
    let from = start_day.and_time(dates::random_time(r, &minutes, true));
    match r.below(20) {
        0..=6 => {
            let mins = r.range(1, 10 * 1440);
            (from, from + Duration::minutes(mins) + Duration::seconds(*r.pick(&[0, 0, 1, 30])), "short")
        }
        7..=12 => (from, from + Duration::days(r.range(11, 3 * 366)), "medium"),
        13..=15 => {
            let years = if thorough && r.chance(30) { r.range(60, 8100) } else { r.range(3, 60) };
            let to = from.checked_add_signed(Duration::days(years * 365)).unwrap_or(stream::date_end() + Duration::days(400));
            (from, to, "long")
        }
        16 => {
            // straddling 1900
            let f = dates::ymd(1899, 1, 1).and_hms_opt(0, 0, 0).unwrap() + Duration::minutes(r.range(0, 600 * 1440));
            (f, f + Duration::days(r.range(1, 900)), "straddles_1900")
        }
        17 => {
            let f = dates::ymd(9999, 1, 1).and_hms_opt(0, 0, 0).unwrap() + Duration::minutes(r.range(0, 500 * 1440));
            (f, f + Duration::days(r.range(1, 900)), "straddles_9999")
        }
        18 => {
            // empty or inverted
            if r.chance(50) { (from, from, "empty") } else { (from, from - Duration::minutes(r.range(1, 5000)), "inverted") }
        }
        _ => (from, stream::date_end() + Duration::days(3), "open_ended"),
    }
}

/// Run all C02 checks on one window. Err(message) = violation.
pub fn check_window(oh: &Oh, ast: Option<&OpeningHoursExpression>, from: NaiveDateTime, to: NaiveDateTime, r: &mut Rng, cap: usize, st: &mut PointwiseStats) -> Result<stream::Stream, String> {
    let s = stream::collect(oh, from, to, cap).map_err(|p| format!("iter_range({from}, {to}) panicked: {p}"))?;
    stream::check_tiling(&s, from, to)?;
    guarded(|| stream::check_pointwise(oh, ast, &s, r, 400, st)).map_err(|p| format!("schedule_at panicked while checking: {p}"))??;
    Ok(s)
}

fn report_failure(args: &Args, rep: &mut Report, ast: &OpeningHoursExpression, hol: &HolSpec, from: NaiveDateTime, to: NaiveDateTime, msg: &str, cap: usize) {
    let fails = |c: &OpeningHoursExpression| -> Option<String> {
        let oh = build(&render::plain(c), hol)?;
        let mut r = Rng::new(5, 0, 0);
        let mut st = PointwiseStats::default();
        check_window(&oh, Some(c), from, to, &mut r, cap, &mut st).err()
    };
    let classified = known::classify(&args.known, ast, &|c| denotable(c), &mut |c| fails(c).is_some(), 300);
    let (small, known) = match classified {
        Classified::Unexplained(s) => (s, None),
        Classified::Explained(s, t) => (s, Some(t)),
    };
    let text = render::plain(&small);
    let what = fails(&small).unwrap_or_else(|| msg.to_string());
    rep.violation("interval_stream", format!("{text:?} [{}] iter_range({from}, {to}): {what}", hol.to_string()), json!({"expr": text, "holidays": hol.to_string(), "from": from.to_string(), "to": to.to_string()}), known);
}

/// Located contexts (zone + coordinates, so that sun events move from day to day): the stream must
/// tile the window and agree with `state` at instants sampled inside every interval, and with the
/// daily schedules (which are zone-independent) on days away from zone transitions.
pub fn check_located(text: &str, lat: f64, lon: f64, from_utc: NaiveDateTime, days: i64) -> Result<u64, String> {
    use chrono::{Offset, TimeZone};
    use opening_hours::localization::Coordinates;
    let coords = Coordinates::new(lat, lon).ok_or("bad coordinates")?;
    let ctx = opening_hours::Context::from_coords(coords);
    let tz = *ctx.locale.get_timezone();
    let oh = match guarded(|| OpeningHours::parse(text)) {
        Ok(Ok(oh)) => oh.with_context(ctx),
        _ => return Ok(0),
    };
    let from = tz.from_utc_datetime(&from_utc);
    let to = from.clone() + Duration::days(days);
    let ivs = guarded(|| oh.iter_range(from.clone(), to.clone()).take(600).collect::<Vec<_>>()).map_err(|p| format!("iter_range({from}, {to}) at ({lat}, {lon}) panicked: {p}"))?;
    if ivs.is_empty() {
        return Err(format!("iter_range({from}, {to}) at ({lat}, {lon}) is empty"));
    }
    if ivs[0].range.start.naive_local() != from.naive_local() {
        return Err(format!("first interval starts at {} instead of {from}", ivs[0].range.start));
    }
    let stable = |t: &chrono::DateTime<chrono_tz::Tz>| {
        let a = tz.offset_from_utc_datetime(&(t.naive_utc() - Duration::hours(4))).fix();
        let b = tz.offset_from_utc_datetime(&(t.naive_utc() + Duration::hours(4))).fix();
        a == b
    };
    let mut checked = 0;
    for (k, iv) in ivs.iter().enumerate() {
        if iv.range.end < iv.range.start {
            return Err(format!("interval {}..{} goes backwards", iv.range.start, iv.range.end));
        }
        if k > 0 {
            let p = &ivs[k - 1];
            if p.range.end != iv.range.start {
                return Err(format!("interval {}..{} does not start where the previous one ended ({})", iv.range.start, iv.range.end, p.range.end));
            }
            if p.kind == iv.kind {
                return Err(format!("two consecutive intervals of state {} around {}", iv.kind, iv.range.start));
            }
        }
        let len = iv.range.end.clone() - iv.range.start.clone();
        let mut probes = vec![iv.range.start.clone(), iv.range.start.clone() + len / 2];
        if len >= Duration::minutes(1) {
            probes.push(iv.range.end.clone() - Duration::minutes(1));
        }
        if len > Duration::days(2) {
            for j in 1..6 {
                probes.push(iv.range.start.clone() + len * j / 6);
            }
        }
        for p in probes {
            if p >= iv.range.end || !stable(&p) {
                continue;
            }
            let st = guarded(|| oh.state(p.clone())).map_err(|e| format!("state({p}) panicked: {e}"))?;
            if st != iv.kind {
                return Err(format!("iter_range({from}, {to}) at ({lat}, {lon}) [{tz}]: interval {}..{} has state {}, but state({p}) = {st}", iv.range.start, iv.range.end, iv.kind));
            }
            // and the daily schedule (naive, zone-independent) says the same at that wall-clock time
            let n = p.naive_local();
            let time: opening_hours_syntax::ExtendedTime = chrono::NaiveTime::from_hms_opt(chrono::Timelike::hour(&n), chrono::Timelike::minute(&n), 0).unwrap().into();
            let pw = oh.schedule_at(n.date()).into_iter().find(|tr| tr.range.start <= time && time < tr.range.end).map(|tr| tr.kind);
            if pw != Some(iv.kind) {
                return Err(format!("iter_range({from}, {to}) at ({lat}, {lon}) [{tz}]: interval {}..{} has state {}, but the schedule of {} gives {pw:?} at {}", iv.range.start, iv.range.end, iv.kind, n.date(), n.time()));
            }
            checked += 1;
        }
        if k + 1 < ivs.len() && stable(&iv.range.end) {
            let st = guarded(|| oh.state(iv.range.end.clone())).map_err(|e| format!("state panicked: {e}"))?;
            if st == iv.kind {
                return Err(format!("at ({lat}, {lon}) [{tz}]: interval {}..{} of state {} ends although state({}) is still {st}", iv.range.start, iv.range.end, iv.kind, iv.range.end));
            }
        }
    }
    Ok(checked)
}

/// Windows of the exact-stream grid: thorough = the whole supported range; quick = its two ends
/// and a 400-year window that rotates with the seed.
pub fn exact_windows(seed: u64, thorough: bool) -> Vec<(NaiveDate, NaiveDate)> {
    let ymd = |y: i32, m: u32, d: u32| NaiveDate::from_ymd_opt(y, m, d).unwrap();
    if thorough {
        vec![(ymd(1900, 1, 1), ymd(9999, 12, 31))]
    } else {
        let w = 1960 + 400 * (seed % 20) as i32;
        vec![(ymd(1900, 1, 1), ymd(1960, 12, 31)), (ymd(w, 1, 1), ymd((w + 399).min(9939), 12, 31)), (ymd(9940, 1, 1), ymd(9999, 12, 31))]
    }
}

/// Exact-stream grid: for one-rule expressions taking every value of one selector parameter, the
/// whole interval stream of a long window equals what evaluating EVERY day of the window gives.
fn exact_grid(args: &Args, rep: &mut Report) {
    let exprs = stream::grid_day_selectors(args.thorough(), args.seed);
    let mut st = stream::ExactStats { days_evaluated: 0, intervals_compared: 0, next_change_calls: 0 };
    let suffixes = ["", " 10:00-12:00", " 22:00-26:00 unknown"];
    let mut idx = 0u64;
    for (i, base) in exprs.iter().enumerate() {
        for (vi, suffix) in suffixes.iter().enumerate() {
            // thorough: every variant; quick: one variant per expression, rotating with the seed
            if !args.thorough() && (i as u64 + args.seed) % 3 != vi as u64 {
                continue;
            }
            idx += 1;
            if (idx - 1) % args.of.max(1) != args.worker {
                continue;
            }
            let text = format!("{base}{suffix}");
            let Some(oh) = build(&text, &HolSpec::None) else {
                rep.count("exact_grid_skipped_parser_rejects");
                continue;
            };
            // the whole range only for the plain variant (thorough); hour variants on the quick windows
            let windows = exact_windows(args.seed, args.thorough() && vi == 0);
            for (d0, d1) in windows {
                rep.evaluations += 1;
                rep.begin(&format!("exact grid {text} | {d0} .. {d1}"));
                let mut r = Rng::new(args.seed, 0xe8ac7, idx);
                match stream::check_exact(&oh, d0, d1, &mut r, 0, &mut st) {
                    Ok(()) => {
                        rep.count("exact_grid_windows_passed");
                        rep.nontrivial(crate::rng::hash64(&format!("exact|{text}|{d0}")));
                    }
                    Err(msg) => {
                        rep.violation("interval_stream_exact", format!("{text:?} [none]: {msg}"), json!({"expr": text, "holidays": "none", "exact_from": d0.to_string(), "exact_to": d1.to_string()}), None);
                        if rep.full() {
                            return;
                        }
                        break;
                    }
                }
            }
        }
    }
    // two-selector cross grid: every month x every week number in ONE rule, months / years / date
    // ranges x weeks, stepped years x month: the hints of the selectors of one rule have to be combined,
    // and whether the combination ever matches depends on how weeks fall in each year
    {
        let ymd = |y: i32, m: u32, d: u32| NaiveDate::from_ymd_opt(y, m, d).unwrap();
        let months = ["Jan", "Feb", "Mar", "Apr", "May", "Jun", "Jul", "Aug", "Sep", "Oct", "Nov", "Dec"];
        let mut cross: Vec<String> = Vec::new();
        for m in months {
            for w in 1..=53 {
                cross.push(format!("{m} week {w:02}"));
            }
        }
        for w in 1..=53 {
            cross.push(format!("2030 week {w:02}"));
            cross.push(format!("2024-2040/4 week {w:02}"));
            cross.push(format!("Mar-May week {w:02}-{:02}", (w + 2).min(53)));
            cross.push(format!("Nov-Feb week {w:02}"));
            cross.push(format!("Dec 25-Jan 05 week {w:02}"));
            cross.push(format!("May 28-Jun 03 week {w:02} 10:00-12:00"));
        }
        for m in months {
            cross.push(format!("2024-2099/5{m}"));
        }
        let (d0, d1) = if args.thorough() { (ymd(1900, 1, 1), ymd(2500, 12, 31)) } else { (ymd(1990 + (args.seed % 7) as i32, 1, 1), ymd(2110, 12, 31)) };
        for (i, text) in cross.iter().enumerate() {
            if (i as u64) % args.of.max(1) != args.worker {
                continue;
            }
            let Some(oh) = build(text, &HolSpec::None) else {
                rep.count("exact_grid_skipped_parser_rejects");
                continue;
            };
            rep.evaluations += 1;
            rep.begin(&format!("two-selector grid {text} | {d0} .. {d1}"));
            match stream::check_exact(&oh, d0, d1, &mut Rng::new(args.seed, 0x25e1, i as u64), 0, &mut st) {
                Ok(()) => {
                    rep.count("two_selector_grid_windows_passed");
                    rep.nontrivial(crate::rng::hash64(&format!("exact|{text}|{d0}")));
                }
                Err(msg) => {
                    rep.violation("interval_stream_exact", format!("{text:?} [none]: {msg}"), json!({"expr": text, "holidays": "none", "exact_from": d0.to_string(), "exact_to": d1.to_string()}), None);
                    if rep.full() {
                        return;
                    }
                }
            }
        }
    }
    // time-shape grid: pairs of boundary-valued spans under a few day selectors, 2018..2042
    // (thorough: 1990..2050), every day evaluated
    let shapes = stream::grid_time_shapes(args.thorough(), args.seed);
    let ymd = |y: i32, m: u32, d: u32| NaiveDate::from_ymd_opt(y, m, d).unwrap();
    let (d0, d1) = if args.thorough() { (ymd(1990, 1, 1), ymd(2050, 12, 31)) } else { (ymd(2018, 1, 1), ymd(2042, 12, 31)) };
    for (i, text) in shapes.iter().enumerate() {
        if (i as u64) % args.of.max(1) != args.worker {
            continue;
        }
        let Some(oh) = build(text, &HolSpec::None) else {
            rep.count("exact_grid_skipped_parser_rejects");
            continue;
        };
        rep.evaluations += 1;
        rep.begin(&format!("time-shape grid {text} | {d0} .. {d1}"));
        match stream::check_exact(&oh, d0, d1, &mut Rng::new(args.seed, 0x71e5, i as u64), 0, &mut st) {
            Ok(()) => {
                rep.count("time_shape_grid_windows_passed");
                rep.nontrivial(crate::rng::hash64(&format!("exact|{text}|{d0}")));
            }
            Err(msg) => {
                rep.violation("interval_stream_exact", format!("{text:?} [none]: {msg}"), json!({"expr": text, "holidays": "none", "exact_from": d0.to_string(), "exact_to": d1.to_string()}), None);
                if rep.full() {
                    return;
                }
            }
        }
    }
    // located exact grid: event-based bounds that cross midnight on the selector's boundary days
    let mut lidx = 0u64;
    for (lat, lon) in stream::LOCATED_GRID_SITES {
        for text in stream::located_grid_expressions(lat, lon) {
            lidx += 1;
            if (lidx - 1) % args.of.max(1) != args.worker {
                continue;
            }
            let Some(oh) = stream::build_located(&text, lat, lon) else {
                rep.count("exact_grid_skipped_parser_rejects");
                continue;
            };
            rep.evaluations += 1;
            rep.begin(&format!("located grid {text} | ({lat}, {lon})"));
            match stream::check_exact_located(&oh, ymd(2018, 1, 1), ymd(2042, 12, 31), &mut Rng::new(args.seed, 0x10ca, lidx), 0, &mut st) {
                Ok(()) => rep.count("located_grid_windows_passed"),
                Err(msg) => {
                    rep.violation("interval_stream_exact_located", format!("{text:?} at ({lat}, {lon}) [UTC]: {msg}"), json!({"expr": text, "lat": lat, "lon": lon, "located_grid": true}), None);
                    if rep.full() {
                        return;
                    }
                }
            }
        }
    }
    rep.add("exact_grid_days_evaluated", st.days_evaluated);
    rep.add("exact_grid_intervals_compared", st.intervals_compared);
}

pub fn run(args: &Args, rep: &mut Report) {
    if !args.extra.iter().any(|e| e == "nogrid") {
        exact_grid(args, rep);
        if rep.full() {
            return;
        }
    }
    let n = args.cases(60_000, 40_000);
    let cap = if args.thorough() { 20_000 } else { 4_000 };
    let mut open_ended_budget = if args.thorough() { 200 } else { 6 };
    let mut st = PointwiseStats::default();
    for k in 0..n {
        let mut cfg = GenCfg::standard(args.thorough()).rotated(k);
        cfg.long_intervals = k % 3 == 0;
        let case = gen_case(args, k, &cfg, rep);
        let mut r = case.rng.clone();
        rep.evaluations += 1;
        let Some(oh) = build(&case.text, &case.hol) else {
            rep.count("skipped_parser_rejects");
            continue;
        };
        coverage_of(&case.ast, rep);
        let (from, mut to, class) = gen_window(&mut r, &case.ast, args.thorough());
        let mut class = class;
        if class == "open_ended" {
            if open_ended_budget == 0 {
                to = from + Duration::days(3 * 366);
                class = "medium";
            } else {
                open_ended_budget -= 1;
            }
        }
        rep.count(&format!("window.{class}"));
        rep.begin(&format!("{} | {} | {from} .. {to}", case.text, case.hol.to_string()));
        match check_window(&oh, Some(&case.ast), from, to, &mut r, cap, &mut st) {
            Ok(s) => {
                rep.add("intervals_observed", s.intervals.len() as u64);
                rep.add("day_steps", s.day_steps);
                if !s.complete {
                    rep.count("streams_cut_at_cap");
                }
                if s.intervals.len() >= 2 || s.skips.iter().any(|(a, b)| (*b - *a).num_days() >= 2) {
                    rep.nontrivial(crate::rng::hash64(&format!("{:?}|{}|{from}|{to}", case.ast, case.hol.to_string())));
                }
                if k < 3 {
                    rep.sample(|| json!({"expr": case.text, "holidays": case.hol.to_string(), "from": from.to_string(), "to": to.to_string(), "intervals": s.intervals.len(), "skips": s.skips.len(), "first_intervals": s.intervals.iter().take(3).map(|i| format!("[{}, {}) {}", i.start, i.end, i.kind)).collect::<Vec<_>>()}));
                }
            }
            Err(msg) => {
                report_failure(args, rep, &case.ast, &case.hol, from, to, &msg, cap);
                if rep.full() {
                    break;
                }
            }
        }
    }
    // located contexts: zone + coordinates inferred from a site, expressions rich in sun events
    let sites: [(f64, f64); 10] = [(48.8566, 2.3522), (40.7128, -74.006), (-33.8688, 151.2093), (35.6762, 139.6503), (64.1466, -21.9426), (-54.8, -68.3), (1.35, 103.82), (59.33, 18.07), (21.3069, -157.8583), (-36.8485, 174.7633)];
    let n_located = args.cases(12_000, 120_000);
    for k in 0..n_located {
        let mut r = Rng::new(args.seed, 0x10c0 + args.worker, k);
        let mut cfg = GenCfg::standard(false).rotated(k);
        cfg.max_rules = 3;
        cfg.focus = Some(crate::gen::expr::SelKind::Time);
        cfg.focus_pct = 50;
        let ast = expr::gen_expr(&mut r, &cfg);
        if !denotable(&ast) {
            continue;
        }
        let text = render::plain(&ast);
        let (lat, lon) = *r.pick(&sites);
        let from = NaiveDate::from_yo_opt(r.range(1990, 2035) as i32, 1 + r.below(365) as u32).unwrap().and_hms_opt(r.below(24) as u32, r.below(60) as u32, *r.pick(&[0u32, 0, 30])).unwrap();
        let days = *r.pick(&[1i64, 3, 10, 40]);
        rep.evaluations += 1;
        rep.begin(&format!("{text} | ({lat}, {lon}) | {from}"));
        match check_located(&text, lat, lon, from, days) {
            Ok(c) => {
                rep.count("located_windows_checked");
                rep.add("located_instants_probed", c);
            }
            Err(msg) => {
                rep.violation("interval_stream_located", format!("{text:?}: {msg}"), json!({"expr": text, "lat": lat, "lon": lon, "from_utc": from.to_string(), "days": days}), None);
                if rep.full() {
                    break;
                }
            }
        }
    }
    for (i, text) in corpus().iter().enumerate() {
        if (i as u64) % args.of.max(1) != args.worker {
            continue;
        }
        let Ok(ast) = lib_parse(text) else { continue };
        let hol = if has_holiday_selector(&ast) { HolSpec::Country("FR".into()) } else { HolSpec::None };
        let Some(oh) = build(text, &hol) else { continue };
        let mut r = Rng::new(args.seed, 0xc0c0, i as u64);
        for _ in 0..4 {
            let (from, mut to, class) = gen_window(&mut r, &ast, false);
            if class == "open_ended" {
                to = from + Duration::days(2000);
            }
            rep.evaluations += 1;
            match check_window(&oh, Some(&ast), from, to, &mut r, cap, &mut st) {
                Ok(_) => rep.count("corpus_windows_checked"),
                Err(msg) => {
                    rep.violation("interval_stream", format!("{text:?} [{}] (from the repository's sample/test sources) iter_range({from}, {to}): {msg}", hol.to_string()), json!({"expr": text, "holidays": hol.to_string(), "from": from.to_string(), "to": to.to_string()}), known::explained_by(&args.known, &ast));
                    break;
                }
            }
        }
    }
    rep.add("days_point_checked", st.days_checked);
    rep.add("days_unchecked_inside_long_intervals", st.days_unchecked);
    rep.add("skipped_days_point_checked", st.skipped_days_checked);
    rep.add("skips_observed", st.skips);
    rep.add("long_skips_not_expanded_day_by_day", st.skips_not_expanded);
    rep.max("longest_skip_days", st.max_skip);
    for (i, b) in stream::SKIP_BUCKETS.iter().enumerate() {
        rep.add(&format!("skip_length_days.{b}"), st.skip_hist[i]);
    }
    rep.require("intervals_observed", 50_000);
    rep.require("skips_observed", 10_000);
    rep.require("skipped_days_point_checked", 10_000);
    rep.require("window.long", 100);
}

pub fn replay(args: &Args, case: &Value, rep: &mut Report) {
    let text = case_expr(case);
    let hol = case_hol(case);
    if case["located_grid"].as_bool() == Some(true) {
        rep.evaluations += 1;
        let (lat, lon) = (case["lat"].as_f64().unwrap_or(0.0), case["lon"].as_f64().unwrap_or(0.0));
        let ymd = |y: i32, m: u32, d: u32| NaiveDate::from_ymd_opt(y, m, d).unwrap();
        let mut st = stream::ExactStats { days_evaluated: 0, intervals_compared: 0, next_change_calls: 0 };
        match stream::build_located(&text, lat, lon) {
            None => rep.violation("witness_rejected", format!("{text:?} does not parse"), case.clone(), None),
            Some(oh) => {
                if let Err(msg) = stream::check_exact_located(&oh, ymd(2018, 1, 1), ymd(2042, 12, 31), &mut Rng::new(5, 0, 0), 0, &mut st) {
                    rep.violation("interval_stream_exact_located", format!("{text:?} at ({lat}, {lon}) [UTC]: {msg}"), case.clone(), None);
                }
            }
        }
        return;
    }
    if let (Some(lat), Some(lon)) = (case["lat"].as_f64(), case["lon"].as_f64()) {
        rep.evaluations += 1;
        let from = case["from_utc"].as_str().and_then(|s| NaiveDateTime::parse_from_str(s, "%Y-%m-%d %H:%M:%S%.f").ok()).unwrap_or_default();
        if let Err(msg) = check_located(&text, lat, lon, from, case["days"].as_i64().unwrap_or(3)) {
            rep.violation("interval_stream_located", format!("{text:?}: {msg}"), case.clone(), None);
        }
        return;
    }
    if let (Some(d0), Some(d1)) = (case["exact_from"].as_str().and_then(|s| s.parse::<NaiveDate>().ok()), case["exact_to"].as_str().and_then(|s| s.parse::<NaiveDate>().ok())) {
        rep.evaluations += 1;
        let Some(oh) = build(&text, &hol) else {
            rep.violation("witness_rejected", format!("{text:?} does not parse"), case.clone(), None);
            return;
        };
        let mut st = stream::ExactStats { days_evaluated: 0, intervals_compared: 0, next_change_calls: 0 };
        if let Err(msg) = stream::check_exact(&oh, d0, d1, &mut Rng::new(5, 0, 0), 0, &mut st) {
            rep.violation("interval_stream_exact", format!("{text:?} [{}]: {msg}", hol.to_string()), case.clone(), None);
        }
        return;
    }
    let parse_dt = |k: &str| case[k].as_str().and_then(|s| NaiveDateTime::parse_from_str(s, "%Y-%m-%d %H:%M:%S%.f").ok());
    let (Some(from), Some(to)) = (parse_dt("from"), parse_dt("to")) else {
        rep.violation("bad_replay", "replay without from/to".into(), case.clone(), None);
        return;
    };
    rep.evaluations += 1;
    let Some(oh) = build(&text, &hol) else {
        rep.violation("witness_rejected", format!("{text:?} does not parse"), case.clone(), None);
        return;
    };
    let ast = lib_parse(&text).ok();
    let mut r = Rng::new(5, 0, 0);
    let mut st = PointwiseStats::default();
    if let Err(msg) = check_window(&oh, ast.as_ref(), from, to, &mut r, 20_000, &mut st) {
        let known = ast.as_ref().and_then(|a| known::explained_by(&args.known, a));
        rep.violation("interval_stream", format!("{text:?} [{}] iter_range({from}, {to}): {msg}", hol.to_string()), case.clone(), known);
    }
}

#[allow(dead_code)]
fn _d(_: NaiveDate) {}
