//! C02 — Interval stream equals pointwise evaluation (no change is skipped).

use super::common::*;
use crate::gen::ctx::HolSpec;
use crate::gen::dates;
use crate::gen::expr::{self, GenCfg};
use crate::known::{self, Classified};
use crate::out::{guarded, Args, Report};
use crate::render;
use crate::rng::Rng;
use crate::stream::{self, Oh, PointwiseStats};
use chrono::{Duration, NaiveDate, NaiveDateTime};
use opening_hours::OpeningHours;
use opening_hours_syntax::rules::OpeningHoursExpression;
use serde_json::{json, Value};

pub fn build(text: &str, hol: &HolSpec) -> Option<Oh> {
    match guarded(|| OpeningHours::parse(text)) {
        Ok(Ok(oh)) => Some(oh.with_context(hol.context())),
        _ => None,
    }
}

pub fn gen_window(r: &mut Rng, ast: &OpeningHoursExpression, thorough: bool) -> (NaiveDateTime, NaiveDateTime, &'static str) {
    let ys = dates::years_of(ast);
    let minutes = dates::interesting_minutes(ast);
    let start_day = if r.chance(40) {
        let empty = compact_calendar::CompactCalendar::default();
        let days = dates::interesting_days(ast, &empty, &empty, r, 40);
        if days.is_empty() { dates::random_day(r, &ys) } else { *r.pick(&days) }
    } else {
        dates::random_day(r, &ys)
    };
    let from = start_day.and_time(dates::random_time(r, &minutes, true));
    match r.below(20) {
        0..=6 => {
            let mins = r.range(1, 10 * 1440);
            (from, from + Duration::minutes(mins) + Duration::seconds(*r.pick(&[0, 0, 1, 30])), "short")
        }
        7..=12 => (from, from + Duration::days(r.range(11, 3 * 366)), "medium"),
        13..=15 => {
            let years = if thorough && r.chance(30) { r.range(60, 8100) } else { r.range(3, 60) };
            let to = from.checked_add_signed(Duration::days(years * 365)).unwrap_or(stream::date_end() + Duration::days(400));
            (from, to, "long")
        }
        16 => {
            // straddling 1900
            let f = dates::ymd(1899, 1, 1).and_hms_opt(0, 0, 0).unwrap() + Duration::minutes(r.range(0, 600 * 1440));
            (f, f + Duration::days(r.range(1, 900)), "straddles_1900")
        }
        17 => {
            let f = dates::ymd(9999, 1, 1).and_hms_opt(0, 0, 0).unwrap() + Duration::minutes(r.range(0, 500 * 1440));
            (f, f + Duration::days(r.range(1, 900)), "straddles_9999")
        }
        18 => {
            // empty or inverted
            if r.chance(50) { (from, from, "empty") } else { (from, from - Duration::minutes(r.range(1, 5000)), "inverted") }
        }
        _ => (from, stream::date_end() + Duration::days(3), "open_ended"),
    }
}

/// Run all C02 checks on one window. Err(message) = violation.
pub fn check_window(oh: &Oh, ast: Option<&OpeningHoursExpression>, from: NaiveDateTime, to: NaiveDateTime, r: &mut Rng, cap: usize, st: &mut PointwiseStats) -> Result<stream::Stream, String> {
    let s = stream::collect(oh, from, to, cap).map_err(|p| format!("iter_range({from}, {to}) panicked: {p}"))?;
    stream::check_tiling(&s, from, to)?;
    guarded(|| stream::check_pointwise(oh, ast, &s, r, 400, st)).map_err(|p| format!("schedule_at panicked while checking: {p}"))??;
    Ok(s)
}

fn report_failure(args: &Args, rep: &mut Report, ast: &OpeningHoursExpression, hol: &HolSpec, from: NaiveDateTime, to: NaiveDateTime, msg: &str, cap: usize) {
    let fails = |c: &OpeningHoursExpression| -> Option<String> {
        let oh = build(&render::plain(c), hol)?;
        let mut r = Rng::new(5, 0, 0);
        let mut st = PointwiseStats::default();
        check_window(&oh, Some(c), from, to, &mut r, cap, &mut st).err()
    };
    let classified = known::classify(&args.known, ast, &|c| denotable(c), &mut |c| fails(c).is_some(), 300);
    let (small, known) = match classified {
        Classified::Unexplained(s) => (s, None),
        Classified::Explained(s, t) => (s, Some(t)),
    };
    let text = render::plain(&small);
    let what = fails(&small).unwrap_or_else(|| msg.to_string());
    rep.violation("interval_stream", format!("{text:?} [{}] iter_range({from}, {to}): {what}", hol.to_string()), json!({"expr": text, "holidays": hol.to_string(), "from": from.to_string(), "to": to.to_string()}), known);
}

pub fn run(args: &Args, rep: &mut Report) {
    let n = args.cases(60_000, 40_000);
    let cap = if args.thorough() { 20_000 } else { 4_000 };
    let mut open_ended_budget = if args.thorough() { 200 } else { 6 };
    let mut st = PointwiseStats::default();
    for k in 0..n {
        let mut cfg = GenCfg::standard(args.thorough()).rotated(k);
        cfg.long_intervals = k % 3 == 0;
        let case = gen_case(args, k, &cfg, rep);
        let mut r = case.rng.clone();
        rep.evaluations += 1;
        let Some(oh) = build(&case.text, &case.hol) else {
            rep.count("skipped_parser_rejects");
            continue;
        };
        coverage_of(&case.ast, rep);
        let (from, mut to, class) = gen_window(&mut r, &case.ast, args.thorough());
        let mut class = class;
        if class == "open_ended" {
            if open_ended_budget == 0 {
                to = from + Duration::days(3 * 366);
                class = "medium";
            } else {
                open_ended_budget -= 1;
            }
        }
        rep.count(&format!("window.{class}"));
        rep.begin(&format!("{} | {} | {from} .. {to}", case.text, case.hol.to_string()));
        match check_window(&oh, Some(&case.ast), from, to, &mut r, cap, &mut st) {
            Ok(s) => {
                rep.add("intervals_observed", s.intervals.len() as u64);
                rep.add("day_steps", s.day_steps);
                if !s.complete {
                    rep.count("streams_cut_at_cap");
                }
                if s.intervals.len() >= 2 || s.skips.iter().any(|(a, b)| (*b - *a).num_days() >= 2) {
                    rep.nontrivial(crate::rng::hash64(&format!("{:?}|{}|{from}|{to}", case.ast, case.hol.to_string())));
                }
                if k < 3 {
                    rep.sample(|| json!({"expr": case.text, "holidays": case.hol.to_string(), "from": from.to_string(), "to": to.to_string(), "intervals": s.intervals.len(), "skips": s.skips.len(), "first_intervals": s.intervals.iter().take(3).map(|i| format!("[{}, {}) {}", i.start, i.end, i.kind)).collect::<Vec<_>>()}));
                }
            }
            Err(msg) => {
                report_failure(args, rep, &case.ast, &case.hol, from, to, &msg, cap);
                if rep.full() {
                    break;
                }
            }
        }
    }
    for (i, text) in corpus().iter().enumerate() {
        if (i as u64) % args.of.max(1) != args.worker {
            continue;
        }
        let Ok(ast) = lib_parse(text) else { continue };
        let hol = if has_holiday_selector(&ast) { HolSpec::Country("FR".into()) } else { HolSpec::None };
        let Some(oh) = build(text, &hol) else { continue };
        let mut r = Rng::new(args.seed, 0xc0c0, i as u64);
        for _ in 0..4 {
            let (from, mut to, class) = gen_window(&mut r, &ast, false);
            if class == "open_ended" {
                to = from + Duration::days(2000);
            }
            rep.evaluations += 1;
            match check_window(&oh, Some(&ast), from, to, &mut r, cap, &mut st) {
                Ok(_) => rep.count("corpus_windows_checked"),
                Err(msg) => {
                    rep.violation("interval_stream", format!("{text:?} [{}] (from the repository's sample/test sources) iter_range({from}, {to}): {msg}", hol.to_string()), json!({"expr": text, "holidays": hol.to_string(), "from": from.to_string(), "to": to.to_string()}), known::explained_by(&args.known, &ast));
                    break;
                }
            }
        }
    }
    rep.add("days_point_checked", st.days_checked);
    rep.add("days_unchecked_inside_long_intervals", st.days_unchecked);
    rep.add("skipped_days_point_checked", st.skipped_days_checked);
    rep.add("skips_observed", st.skips);
    rep.add("long_skips_not_expanded_day_by_day", st.skips_not_expanded);
    rep.max("longest_skip_days", st.max_skip);
    for (i, b) in stream::SKIP_BUCKETS.iter().enumerate() {
        rep.add(&format!("skip_length_days.{b}"), st.skip_hist[i]);
    }
    rep.require("intervals_observed", 50_000);
    rep.require("skips_observed", 10_000);
    rep.require("skipped_days_point_checked", 10_000);
    rep.require("window.long", 100);
}

pub fn replay(args: &Args, case: &Value, rep: &mut Report) {
    let text = case_expr(case);
    let hol = case_hol(case);
    let parse_dt = |k: &str| case[k].as_str().and_then(|s| NaiveDateTime::parse_from_str(s, "%Y-%m-%d %H:%M:%S%.f").ok());
    let (Some(from), Some(to)) = (parse_dt("from"), parse_dt("to")) else {
        rep.violation("bad_replay", "replay without from/to".into(), case.clone(), None);
        return;
    };
    rep.evaluations += 1;
    let Some(oh) = build(&text, &hol) else {
        rep.violation("witness_rejected", format!("{text:?} does not parse"), case.clone(), None);
        return;
    };
    let ast = lib_parse(&text).ok();
    let mut r = Rng::new(5, 0, 0);
    let mut st = PointwiseStats::default();
    if let Err(msg) = check_window(&oh, ast.as_ref(), from, to, &mut r, 20_000, &mut st) {
        let known = ast.as_ref().and_then(|a| known::explained_by(&args.known, a));
        rep.violation("interval_stream", format!("{text:?} [{}] iter_range({from}, {to}): {msg}", hol.to_string()), case.clone(), known);
    }
}

#[allow(dead_code)]
fn _d(_: NaiveDate) {}
