pub mod c01;
pub mod c05;
pub mod c10;
pub mod c14;
pub mod c15;
pub mod c19;
pub mod c20;
pub mod common;
