pub mod c10;
pub mod c14;
pub mod c15;
pub mod c19;
pub mod c20;
