//! C19 — ExtendedTime is a faithful 00:00..48:00 minute counter (exhaustive).

use crate::out::{guarded, Args, Report};
use chrono::{NaiveTime, Timelike};
use opening_hours_syntax::ExtendedTime;
use serde_json::json;
use std::convert::TryInto;

fn model_valid(h: u32, m: u32) -> bool {
    m < 60 && (h < 48 || (h == 48 && m == 0))
}

pub fn run(args: &Args, rep: &mut Report) {
    rep.exhaustive = true;
    let w = args.worker;
    let of = args.of.max(1);
    // Under Miri (reduced) a stride can be given: --extra stride=N
    let stride: u64 = args
        .extra
        .iter()
        .find_map(|e| e.strip_prefix("stride=").and_then(|s| s.parse().ok()))
        .unwrap_or(1);
    if stride != 1 {
        rep.exhaustive = false;
    }

    let fail = |rep: &mut Report, what: &str, msg: String, case: serde_json::Value| {
        rep.violation(what, msg, case, None);
    };

    // 1. new(): all u8 x u8 (worker 0 .. of-1 split on hour)
    let mut valid: Vec<ExtendedTime> = Vec::new();
    for h in 0..=255u32 {
        for m in 0..=255u32 {
            let r = guarded(|| ExtendedTime::new(h as u8, m as u8));
            let Ok(r) = r else {
                fail(rep, "panic", format!("ExtendedTime::new({h},{m}) panicked"), json!({"op":"new","hour":h,"minute":m}));
                continue;
            };
            if (h as u64 + m as u64) % of == w {
                rep.evaluations += 1;
                rep.count("new_checked");
                if model_valid(h, m) {
                    rep.count("distinct_enumerated");
                }
            }
            match (r, model_valid(h, m)) {
                (Some(t), true) => {
                    if t.hour() as u32 != h || t.minute() as u32 != m || t.mins_from_midnight() as u32 != 60 * h + m {
                        fail(rep, "new_fields", format!("new({h},{m}) = {t:?} hour={} minute={} mins={}", t.hour(), t.minute(), t.mins_from_midnight()), json!({"op":"new","hour":h,"minute":m}));
                    }
                    let s = t.to_string();
                    if s != format!("{:02}:{:02}", h, m) || format!("{t:?}") != s {
                        fail(rep, "display", format!("Display of {h}:{m} = {s:?}"), json!({"op":"display","hour":h,"minute":m}));
                    }
                    valid.push(t);
                }
                (None, false) => {}
                (got, exp) => fail(rep, "new_accept", format!("new({h},{m}) = {got:?}, model valid = {exp}"), json!({"op":"new","hour":h,"minute":m})),
            }
        }
    }
    rep.add("valid_times", valid.len() as u64);
    if valid.len() != 2881 {
        // ordering checks below need the full set; reported above already if wrong
    }
    rep.sample(|| json!({"op":"new","hour":48,"minute":0,"expected":"Some(48:00)"}));
    rep.sample(|| json!({"op":"new","hour":48,"minute":1,"expected":"None"}));

    // constants
    for (c, mins) in [(ExtendedTime::MIDNIGHT_00, 0u16), (ExtendedTime::MIDNIGHT_24, 1440), (ExtendedTime::MIDNIGHT_48, 2880)] {
        if c.mins_from_midnight() != mins {
            fail(rep, "const", format!("constant {c:?} != {mins} minutes"), json!({"op":"const","mins":mins}));
        }
    }

    // 2. from_mins_from_midnight: all u16, inverse
    for x in 0..=u16::MAX {
        if (x as u64) % of != w {
            continue;
        }
        rep.evaluations += 1;
        rep.count("from_mins_checked");
        let r = guarded(|| ExtendedTime::from_mins_from_midnight(x));
        match r {
            Err(p) => fail(rep, "panic", format!("from_mins_from_midnight({x}) panicked: {p}"), json!({"op":"from_mins","mins":x})),
            Ok(Some(t)) => {
                rep.count("distinct_enumerated");
                if x > 2880 || t.mins_from_midnight() != x || t.hour() as u16 != x / 60 || t.minute() as u16 != x % 60 {
                    fail(rep, "from_mins", format!("from_mins_from_midnight({x}) = {t:?}"), json!({"op":"from_mins","mins":x}));
                }
            }
            Ok(None) => {
                if x <= 2880 {
                    fail(rep, "from_mins", format!("from_mins_from_midnight({x}) = None"), json!({"op":"from_mins","mins":x}));
                }
            }
        }
    }
    // inverse on valid times
    for t in &valid {
        if ExtendedTime::from_mins_from_midnight(t.mins_from_midnight()) != Some(*t) {
            fail(rep, "inverse", format!("from_mins(mins({t:?})) != {t:?}"), json!({"op":"inverse","time":t.to_string()}));
        }
    }

    // 3. ordering on all pairs of valid times
    for (i, a) in valid.iter().enumerate() {
        if (i as u64) % of != w || (i as u64 / of) % stride != 0 {
            continue;
        }
        for b in &valid {
            rep.evaluations += 1;
            let exp = a.mins_from_midnight().cmp(&b.mins_from_midnight());
            if a.cmp(b) != exp || a.partial_cmp(b) != Some(exp) || (a == b) != (exp == std::cmp::Ordering::Equal) {
                fail(rep, "ordering", format!("{a:?} cmp {b:?} = {:?}, minutes say {exp:?}", a.cmp(b)), json!({"op":"cmp","a":a.to_string(),"b":b.to_string()}));
            }
        }
        rep.count("ordering_rows");
    }

    // 4. add_minutes: all valid x all i16 ; add_hours: all valid x all i8
    for (i, t) in valid.iter().enumerate() {
        if (i as u64) % of != w || (i as u64 / of) % stride != 0 {
            continue;
        }
        let base = t.mins_from_midnight() as i32;
        let r = guarded(|| {
            let mut bad: Option<(i32, Option<ExtendedTime>)> = None;
            let mut some = 0u64;
            for d in i16::MIN..=i16::MAX {
                let exp = base + d as i32;
                let got = t.add_minutes(d);
                let ok = match got {
                    Some(g) => {
                        some += 1;
                        (0..=2880).contains(&exp) && g.mins_from_midnight() as i32 == exp
                    }
                    None => !(0..=2880).contains(&exp),
                };
                if !ok && bad.is_none() {
                    bad = Some((d as i32, got));
                }
            }
            (bad, some)
        });
        rep.evaluations += 65536;
        match r {
            Err(p) => fail(rep, "panic", format!("{t:?}.add_minutes(..) panicked: {p}"), json!({"op":"add_minutes","time":t.to_string()})),
            Ok((Some((d, got)), _)) => fail(rep, "add_minutes", format!("{t:?}.add_minutes({d}) = {got:?}, integer addition gives {}", base + d), json!({"op":"add_minutes","time":t.to_string(),"delta":d})),
            Ok((None, some)) => rep.add("add_minutes_in_range_results", some),
        }
        let r = guarded(|| {
            let mut bad: Option<(i32, Option<ExtendedTime>)> = None;
            for k in i8::MIN..=i8::MAX {
                let exp = base + 60 * k as i32;
                let got = t.add_hours(k);
                let ok = match got {
                    Some(g) => (0..=2880).contains(&exp) && g.mins_from_midnight() as i32 == exp,
                    None => !(0..=2880).contains(&exp),
                };
                if !ok && bad.is_none() {
                    bad = Some((k as i32, got));
                }
            }
            bad
        });
        rep.evaluations += 256;
        match r {
            Err(p) => fail(rep, "panic", format!("{t:?}.add_hours(..) panicked: {p}"), json!({"op":"add_hours","time":t.to_string()})),
            Ok(Some((k, got))) => fail(rep, "add_hours", format!("{t:?}.add_hours({k}) = {got:?}, integer addition gives {}", base + 60 * k), json!({"op":"add_hours","time":t.to_string(),"delta":k})),
            Ok(None) => {}
        }
        rep.count("add_rows");
        rep.count("distinct_enumerated");

        // 5. conversions to / from clock time
        let conv: Result<NaiveTime, ()> = (*t).try_into();
        match conv {
            Ok(nt) => {
                if base >= 1440 || nt.hour() as i32 * 60 + nt.minute() as i32 != base || nt.second() != 0 {
                    fail(rep, "try_into", format!("{t:?} -> NaiveTime {nt}"), json!({"op":"try_into","time":t.to_string()}));
                }
                for s in [0u32, 1, 59] {
                    let with_s = NaiveTime::from_hms_opt(nt.hour(), nt.minute(), s).unwrap();
                    match guarded(|| ExtendedTime::from(with_s)) {
                        Ok(back) if back == *t => {}
                        other => fail(rep, "from_naive", format!("ExtendedTime::from({with_s}) = {other:?}, expected {t:?}"), json!({"op":"from_naive","time":with_s.to_string()})),
                    }
                }
                // every sub-second part chrono can represent, including its leap-second form
                // (second 59 with nanoseconds >= 1e9): the clock reading is still hh:mm
                for (s, ns) in [(0u32, 1u32), (0, 999_999_999), (30, 500_000_000), (59, 999_999_999), (59, 1_000_000_000), (59, 1_500_000_000), (59, 1_999_999_999)] {
                    let with_ns = NaiveTime::from_hms_nano_opt(nt.hour(), nt.minute(), s, ns).unwrap();
                    match guarded(|| ExtendedTime::from(with_ns)) {
                        Ok(back) if back == *t => {}
                        other => fail(rep, "from_naive", format!("ExtendedTime::from({with_ns}) = {other:?}, expected {t:?}"), json!({"op":"from_naive","time":with_ns.to_string()})),
                    }
                    rep.count("subsecond_clock_times_converted");
                }
                rep.count("clock_times_converted");
            }
            Err(()) => {
                if base < 1440 {
                    fail(rep, "try_into", format!("{t:?} does not convert to a clock time"), json!({"op":"try_into","time":t.to_string()}));
                }
                rep.count("beyond_clock_rejected");
            }
        }
    }
    rep.sample(|| json!({"op":"add_minutes","time":"24:00","delta":1441,"expected":"None"}));
    rep.require("new_checked", 65536 / 2);
    rep.require("add_rows", if stride == 1 { 2000 } else { 1 });
}

pub fn replay(case: &serde_json::Value, rep: &mut Report) {
    // Every C19 case is a single operation; re-run the whole (cheap) exhaustive pass restricted
    // to that operation by simply running everything: the witness is then re-reported.
    let _ = case;
    let args = Args { monitor: "C19".into(), seed: 0, worker: 0, of: 1, tier: "quick".into(), out: None, known: vec![], replay: None, scale: 1.0, extra: vec![] };
    run(&args, rep);
}
