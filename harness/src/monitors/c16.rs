//! C16 — The interval-size bound is a sound approximation.

use super::common::*;
use crate::gen::ctx::HolSpec;
use crate::gen::dates;
use crate::gen::expr::GenCfg;
use crate::known::{self, Classified};
use crate::out::{guarded, Args, Report};
use crate::render;
use crate::rng::Rng;
use crate::stream::{self, Oh};
use chrono::{Duration, NaiveDateTime};
use opening_hours::OpeningHours;
use opening_hours_syntax::rules::OpeningHoursExpression;
use serde_json::{json, Value};

fn build_pair(text: &str, hol: &HolSpec, bound: Duration) -> Option<(Oh, Oh)> {
    match guarded(|| OpeningHours::parse(text)) {
        Ok(Ok(oh)) => {
            let exact = oh.clone().with_context(hol.context());
            let bounded = oh.with_context(hol.context().approx_bound_interval_size(bound));
            Some((exact, bounded))
        }
        _ => None,
    }
}

#[derive(Debug)]
pub struct Observed {
    pub exact_required: bool,
    pub none_required: bool,
    pub answered_exact: bool,
}

/// Check the bounded context at instant `t`. The exact answer is taken from a pointwise scan of
/// the daily schedules up to `t + bound + 2 days` (beyond that it is "more than B away").
pub fn check(exact: &Oh, bounded: &Oh, t: NaiveDateTime, bound: Duration) -> Result<Observed, String> {
    let (se, sb) = guarded(|| (exact.state(t), bounded.state(t))).map_err(|p| format!("state({t}) panicked: {p}"))?;
    if se != sb {
        return Err(format!("state({t}) = {sb} with the bound, {se} without"));
    }
    let horizon = (t + bound + Duration::days(2)).min(stream::date_end());
    let exact_next = guarded(|| stream::next_change_pointwise(exact, t, horizon)).map_err(|p| format!("schedule_at panicked: {p}"))?;
    judge(bounded, t, bound, exact_next, horizon)
}

/// Bounds of decades and more: the exact answer is taken from the unbounded context's own
/// next_change (decided by C03) instead of a scan of every day up to t + bound.
pub fn check_long_bound(exact: &Oh, bounded: &Oh, t: NaiveDateTime, bound: Duration) -> Result<Observed, String> {
    let (se, sb) = guarded(|| (exact.state(t), bounded.state(t))).map_err(|p| format!("state({t}) panicked: {p}"))?;
    if se != sb {
        return Err(format!("state({t}) = {sb} with the bound, {se} without"));
    }
    let exact_next = match stream::with_day_budget(4_000_000, || exact.next_change(t))? {
        Some(x) => x,
        None => return Err(format!("next_change({t}) without a bound made more than 4 million day steps")),
    };
    judge(bounded, t, bound, exact_next, stream::date_end())
}

/// Pointwise oracle up to bounds of 20 000 days (the thorough tier draws 18 263-day bounds in 10% of its
/// cases: a scan of 50 years costs 40 ms, an unbounded walk seconds), the unbounded next_change beyond.
pub fn check_auto(exact: &Oh, bounded: &Oh, t: NaiveDateTime, bound: Duration) -> Result<Observed, String> {
    if bound.num_days() > 20_000 {
        check_long_bound(exact, bounded, t, bound)
    } else {
        check(exact, bounded, t, bound)
    }
}

fn judge(bounded: &Oh, t: NaiveDateTime, bound: Duration, exact_next: Option<NaiveDateTime>, horizon: NaiveDateTime) -> Result<Observed, String> {
    let got = guarded(|| bounded.next_change(t)).map_err(|p| format!("next_change({t}) with the bound panicked: {p}"))?;
    let mut o = Observed { exact_required: false, none_required: false, answered_exact: false };
    match exact_next {
        Some(p) => {
            let dist = p - t;
            o.exact_required = dist <= bound - Duration::hours(24);
            o.none_required = dist > bound;
            match got {
                Some(u) if u == p => {
                    o.answered_exact = true;
                    if o.none_required {
                        return Err(format!("next_change({t}) with bound {} = {u}, although the exact next change is more than the bound away ({} min)", fmt(bound), dist.num_minutes()));
                    }
                }
                Some(u) => {
                    let rel = if u < p { "a change that does not exist (earlier than the exact one)" } else { "a later change than the exact one" };
                    return Err(format!("next_change({t}) with bound {} = {u}: {rel}; exact next change is {p}", fmt(bound)));
                }
                None => {
                    if o.exact_required {
                        return Err(format!("next_change({t}) with bound {} = None although the exact next change {p} is only {} min away (<= bound - 24 h)", fmt(bound), dist.num_minutes()));
                    }
                }
            }
        }
        None => {
            // no change until horizon: either there is none before 10000-01-01, or it is > B away
            o.none_required = true;
            if let Some(u) = got {
                return Err(format!("next_change({t}) with bound {} = {u} although the daily schedules show no change before {horizon}", fmt(bound)));
            }
        }
    }
    Ok(o)
}

fn fmt(b: Duration) -> String {
    format!("{}d{:02}h{:02}m", b.num_days(), b.num_hours() % 24, b.num_minutes() % 60)
}

fn gen_bound(r: &mut Rng, thorough: bool) -> Duration {
    let days = match r.below(20) {
        0..=4 => 1,
        5..=8 => 2,
        9..=12 => 7,
        13..=15 => 31,
        16 | 17 => 366,
        18 => if thorough { 3653 } else { 366 },
        _ => if thorough { 18263 } else { 731 },
    };
    // the property speaks of bounds from one day up: no negative delta on the one-day bound
    let deltas: &[i64] = if days == 1 { &[0, 0, 1, 30, 720] } else { &[0, 0, 0, 1, -1, 30, 720] };
    Duration::days(days) + Duration::minutes(*r.pick(deltas))
}

/// Instants placed so that (exact next change - t) falls around B - 24 h and B.
fn placed_instants(exact: &Oh, r: &mut Rng, ast: &OpeningHoursExpression, bound: Duration) -> Vec<NaiveDateTime> {
    let t0 = super::c03::gen_instant(r, ast);
    let mut out = vec![t0];
    let span = (bound + bound + Duration::days(40)).min(Duration::days(80 * 366));
    let Ok(s) = stream::collect(exact, t0, (t0 + span).min(stream::date_end()), 60) else { return out };
    for iv in s.intervals.iter().skip(1) {
        let p = iv.end;
        let a = iv.start;
        let deltas = [Duration::zero(), Duration::minutes(1), Duration::minutes(-1), Duration::days(1), Duration::days(-1), Duration::seconds(30), Duration::hours(12)];
        for base in [bound - Duration::hours(24), bound] {
            let d = *r.pick(&deltas);
            let t = p - base - d;
            if t >= a && t < p {
                out.push(t);
            }
        }
        if p - a > Duration::minutes(2) {
            out.push(a);
            out.push(a + (p - a) / 2);
            out.push(p - Duration::minutes(1));
        }
        if out.len() > 14 {
            break;
        }
    }
    out
}

fn report_failure(args: &Args, rep: &mut Report, ast: &OpeningHoursExpression, hol: &HolSpec, t: NaiveDateTime, bound: Duration, msg: &str) {
    let fails = |c: &OpeningHoursExpression| -> Option<String> {
        let (e, b) = build_pair(&render::plain(c), hol, bound)?;
        check_auto(&e, &b, t, bound).err()
    };
    let classified = known::classify(&args.known, ast, &|c| denotable(c), &mut |c| fails(c).is_some(), 300);
    let (small, known) = match classified {
        Classified::Unexplained(s) => (s, None),
        Classified::Explained(s, t) => (s, Some(t)),
    };
    let text = render::plain(&small);
    let what = fails(&small).unwrap_or_else(|| msg.to_string());
    rep.violation("interval_size_bound", format!("{text:?} [{}]: {what}", hol.to_string()), json!({"expr": text, "holidays": hol.to_string(), "instant": t.to_string(), "bound_minutes": bound.num_minutes()}), known);
}

/// Bound sweep: every whole number of hours from 24 h to 60 days, every whole number of days up to
/// 1200 (thorough: 4000), and odd minute values, on a fixed set of expressions with instants placed
/// around B and B - 24 h: a slip tied to one size class of the bound cannot hide behind the handful
/// of bounds the random part draws.
fn bound_sweep(args: &Args, rep: &mut Report) {
    let exprs = ["Mo-Fr 10:00-18:00", "Jan 10:00-12:00; Jul off", "week 10 Mo", "2030 Mar 12-2031 Feb 02", "Sa[1] 22:00-26:00 unknown", "easter", "Mo-Fr 10:00-18:00 || Su 12:00-14:00 unknown", "Dec 24-Jan 02 off; 24/7"];
    let mut bounds: Vec<Duration> = Vec::new();
    for h in 24..=1440 {
        bounds.push(Duration::hours(h));
    }
    for d in 61..=(if args.thorough() { 4000 } else { 1200 }) {
        bounds.push(Duration::days(d));
    }
    for m in (1441..=20_000).step_by(37) {
        bounds.push(Duration::minutes(m));
    }
    // long bounds (decades to the whole supported range), judged against the unbounded next_change
    let long_exprs = ["2020 Mo 10:00-12:00", "2020,2075 Mo 10:00-12:00", "Mo-Fr 10:00-18:00", "2030 Mar 12-2031 Feb 02", "1950-2400/50 Jan 01", "week 53 Su", "Feb 29", "9000-9999 easter", "2020 Jan; 2300 Dec off", "Sa[5] 22:00-26:00 unknown"];
    let mut long_bounds: Vec<i64> = vec![1500, 2000, 3000, 3652, 3653, 5000, 7305, 7500, 10_000, 10_248, 10_249, 10_250, 12_000, 15_000, 18_263, 20_000, 30_000, 36_525, 50_000, 100_000, 365_250, 1_000_000, 2_958_463, 3_000_000];
    for d in (1300..40_000).step_by(if args.thorough() { 397 } else { 997 }) {
        long_bounds.push(d);
    }
    let mut lidx = 0u64;
    for days in long_bounds {
        let bound = Duration::days(days);
        for text in long_exprs {
            lidx += 1;
            if (lidx - 1) % args.of.max(1) != args.worker {
                continue;
            }
            let Some((exact, bounded)) = build_pair(text, &HolSpec::None, bound) else { continue };
            let mut r = Rng::new(args.seed, 0x10b0, lidx);
            for j in 0..6 {
                let y = match j {
                    0 => 2021,
                    1 => 2019,
                    2 => r.range(1900, 2100) as i32,
                    3 => r.range(1900, 9999) as i32,
                    4 => (2075 - days / 366).clamp(1900, 9999) as i32,
                    _ => (2020 - days / 365).clamp(1900, 9999) as i32,
                };
                let t = chrono::NaiveDate::from_yo_opt(y, 1 + r.below(365) as u32).unwrap().and_hms_opt(r.below(24) as u32, r.below(60) as u32, 0).unwrap();
                rep.evaluations += 1;
                match check_long_bound(&exact, &bounded, t, bound) {
                    Ok(_) => rep.count("long_bound_instants_checked"),
                    Err(msg) => {
                        rep.violation("interval_size_bound", format!("{text:?} [none]: {msg}"), json!({"expr": text, "holidays": "none", "instant": t.to_string(), "bound_minutes": bound.num_minutes(), "long_bound": true}), None);
                        if rep.full() {
                            return;
                        }
                        break;
                    }
                }
            }
        }
    }
    let mut idx = 0u64;
    for (bi, bound) in bounds.iter().enumerate() {
        for (ei, text) in exprs.iter().enumerate() {
            // quick: each bound with two of the eight expressions (rotating); thorough: all
            if !args.thorough() && (bi + ei) % 4 != (args.seed % 4) as usize {
                continue;
            }
            idx += 1;
            if (idx - 1) % args.of.max(1) != args.worker {
                continue;
            }
            let Ok(ast) = lib_parse(text) else { continue };
            let Some((exact, bounded)) = build_pair(text, &HolSpec::None, *bound) else { continue };
            let mut r = Rng::new(args.seed, 0xb0b0, idx);
            for t in placed_instants(&exact, &mut r, &ast, *bound) {
                rep.evaluations += 1;
                match check(&exact, &bounded, t, *bound) {
                    Ok(_) => rep.count("bound_sweep_instants_checked"),
                    Err(msg) => {
                        rep.violation("interval_size_bound", format!("{text:?} [none]: {msg}"), json!({"expr": text, "holidays": "none", "instant": t.to_string(), "bound_minutes": bound.num_minutes()}), None);
                        if rep.full() {
                            return;
                        }
                        break;
                    }
                }
            }
        }
    }
    rep.add("bound_sweep_bounds", bounds.len() as u64 / args.of.max(1));
}

pub fn run(args: &Args, rep: &mut Report) {
    let n = args.cases(200_000, 2_000_000);
    bound_sweep(args, rep);
    if rep.full() {
        return;
    }
    for k in 0..n {
        let mut cfg = GenCfg::standard(args.thorough()).rotated(k);
        cfg.long_intervals = k % 2 == 0;
        let case = gen_case(args, k, &cfg, rep);
        let mut r = case.rng.clone();
        let mut bound = gen_bound(&mut r, args.thorough());
        // ~600 cases per run (0.3% in the quick tier): a bound of decades to millennia, judged against the unbounded next_change
        // (an absolute number of such cases per run, ~600: each costs seconds of day-by-day walking)
        let long = r.below(n.max(1) * args.of.max(1)) < 600;
        if long {
            bound = Duration::days(*r.pick(&[3_653i64, 9_000, 10_250, 14_000, 18_263, 30_000, 50_000, 150_000, 1_000_000, 2_958_463])) + Duration::minutes(*r.pick(&[0i64, 0, 1, -1, 720]));
        }
        let Some((exact, bounded)) = build_pair(&case.text, &case.hol, bound) else {
            rep.count("skipped_parser_rejects");
            continue;
        };
        coverage_of(&case.ast, rep);
        rep.count(&format!("bound_days.{}", bound.num_days()));
        let mut instants = placed_instants(&exact, &mut r, &case.ast, bound);
        if long {
            instants.truncate(4);
        }
        for (j, t) in instants.iter().enumerate() {
            rep.evaluations += 1;
            rep.begin(&format!("{} | {} | {t} | {}", case.text, case.hol.to_string(), fmt(bound)));
            if long {
                rep.count("long_bound_generated_instants");
            }
            match check_auto(&exact, &bounded, *t, bound) {
                Ok(o) => {
                    rep.count("instants_checked");
                    if o.exact_required {
                        rep.count("exact_answer_required");
                    }
                    if o.none_required {
                        rep.count("none_required");
                    }
                    if !o.exact_required && !o.none_required {
                        rep.count("either_answer_allowed");
                        rep.count(if o.answered_exact { "either_allowed.answered_exact" } else { "either_allowed.answered_none" });
                    }
                    rep.nontrivial(crate::rng::hash64(&format!("{:?}|{}|{t}|{}", case.ast, case.hol.to_string(), bound.num_minutes())));
                    if k < 2 && j == 1 {
                        rep.sample(|| json!({"expr": case.text, "holidays": case.hol.to_string(), "instant": t.to_string(), "bound": fmt(bound), "bounded_next_change": bounded.next_change(*t).map(|x| x.to_string()), "exact_required": o.exact_required, "none_required": o.none_required}));
                    }
                }
                Err(msg) => {
                    report_failure(args, rep, &case.ast, &case.hol, *t, bound, &msg);
                    break;
                }
            }
        }
        if rep.full() {
            break;
        }
    }
    rep.require("instants_checked", 20_000);
    rep.require("exact_answer_required", 5_000);
    rep.require("none_required", 2_000);
    rep.require("either_answer_allowed", 500);
}

pub fn replay(args: &Args, case: &Value, rep: &mut Report) {
    let text = case_expr(case);
    let hol = case_hol(case);
    let Some(t) = case["instant"].as_str().and_then(|s| NaiveDateTime::parse_from_str(s, "%Y-%m-%d %H:%M:%S%.f").ok()) else {
        rep.violation("bad_replay", "replay without instant".into(), case.clone(), None);
        return;
    };
    let bound = Duration::minutes(case["bound_minutes"].as_i64().unwrap_or(1440));
    rep.evaluations += 1;
    let Some((e, b)) = build_pair(&text, &hol, bound) else {
        rep.violation("witness_rejected", format!("{text:?} does not parse"), case.clone(), None);
        return;
    };
    let verdict = check_auto(&e, &b, t, bound);
    if let Err(msg) = verdict {
        let known = lib_parse(&text).ok().and_then(|a| known::explained_by(&args.known, &a));
        rep.violation("interval_size_bound", format!("{text:?} [{}]: {msg}", hol.to_string()), case.clone(), known);
    }
}

#[allow(dead_code)]
fn _u(_: &dyn Fn() -> Vec<chrono::NaiveDate>) {
    let _ = dates::min_day;
}
