//! C10 — Embedded holiday calendars equal the source data, per country (exhaustive).

use crate::out::{guarded, Args, Report};
use chrono::{Datelike, NaiveDate};
use opening_hours::localization::Country;
use opening_hours::{Context, OpeningHours, RuleKind};
use serde_json::{json, Value};
use std::collections::{BTreeMap, BTreeSet};

pub fn repo_root() -> String {
    std::env::var("OHV_REPO").unwrap_or_else(|_| "/repo".to_string())
}

pub fn load_source(kind: &str) -> BTreeMap<String, BTreeSet<NaiveDate>> {
    let path = format!("{}/opening-hours/data/holidays_{kind}.txt", repo_root());
    let text = std::fs::read_to_string(&path).unwrap_or_else(|e| panic!("cannot read {path}: {e}"));
    let mut out: BTreeMap<String, BTreeSet<NaiveDate>> = BTreeMap::new();
    for line in text.lines() {
        let mut it = line.splitn(2, ' ');
        let (Some(region), Some(date)) = (it.next(), it.next()) else { continue };
        let date: NaiveDate = date.trim().parse().unwrap_or_else(|e| panic!("bad date in {path}: {line:?}: {e}"));
        out.entry(region.to_string()).or_default().insert(date);
    }
    out
}

pub fn run(args: &Args, rep: &mut Report) {
    rep.exhaustive = true;
    let public = load_source("public");
    let school = load_source("school");
    let of = args.of.max(1);
    let empty = BTreeSet::new();

    // country set consistency
    if args.worker == 0 {
        let all: BTreeSet<String> = Country::ALL.iter().map(|c| c.iso_code().to_string()).collect();
        if all.len() != Country::ALL.len() {
            rep.violation("iso_codes_not_unique", "two countries share an ISO code".into(), json!({}), None);
        }
        for region in public.keys().chain(school.keys()) {
            if !all.contains(region) {
                rep.violation("country_missing", format!("region {region} of the data files is not in Country::ALL"), json!({"region": region}), None);
            }
        }
        for c in &all {
            if !public.contains_key(c) {
                rep.violation("country_without_data", format!("country {c} has no line in holidays_public.txt"), json!({"country": c}), None);
            }
        }
        rep.add("countries", all.len() as u64);
        // parser: every string of length <= 3 over [A-Za-z] (+ variants) parses iff it is one of the codes
        let letters: Vec<char> = ('A'..='Z').chain('a'..='z').collect();
        let mut cands: Vec<String> = vec![String::new()];
        for a in &letters {
            cands.push(a.to_string());
            for b in &letters {
                cands.push(format!("{a}{b}"));
                for c in &letters {
                    cands.push(format!("{a}{b}{c}"));
                }
            }
        }
        for c in Country::ALL {
            let code = c.iso_code();
            for v in [format!(" {code}"), format!("{code} "), code.to_lowercase(), format!("{code}\n"), format!("{code}{code}"), c.name().to_string()] {
                cands.push(v);
            }
        }
        for s in &cands {
            rep.evaluations += 1;
            rep.count("code_strings_parsed");
            match guarded(|| s.parse::<Country>()) {
                Err(p) => rep.violation("panic", format!("parsing {s:?} panicked: {p}"), json!({"code": s}), None),
                Ok(Ok(c)) => {
                    if !all.contains(s) || c.iso_code() != s {
                        rep.violation("code_parser", format!("{s:?} parsed to {c:?} (code {})", c.iso_code()), json!({"code": s}), None);
                    } else {
                        rep.count("codes_accepted");
                    }
                }
                Ok(Err(_)) => {
                    if all.contains(s) {
                        rep.violation("code_parser", format!("code {s:?} of Country::ALL is rejected"), json!({"code": s}), None);
                    }
                }
            }
        }
        for c in Country::ALL {
            if c.iso_code().parse::<Country>().ok() != Some(c) {
                rep.violation("code_roundtrip", format!("{c:?}.iso_code().parse() != {c:?}"), json!({"country": c.iso_code()}), None);
            }
        }
    }

    let lo = NaiveDate::from_ymd_opt(1990, 1, 1).unwrap();
    let hi = NaiveDate::from_ymd_opt(2085, 12, 31).unwrap();
    for (i, country) in Country::ALL.iter().enumerate() {
        if (i as u64) % of != args.worker {
            continue;
        }
        let code = country.iso_code();
        let Ok(hol) = guarded(|| country.holidays()) else {
            rep.violation("panic", format!("{code}.holidays() panicked"), json!({"country": code}), None);
            continue;
        };
        for (kind, src, cal) in [("public", public.get(code).unwrap_or(&empty), hol.get_public()), ("school", school.get(code).unwrap_or(&empty), hol.get_school())] {
            // 1. every day of 1990..2085
            let mut day = lo;
            let mut members = 0u64;
            while day <= hi {
                rep.evaluations += 1;
                let got = cal.contains(day);
                if got {
                    members += 1;
                }
                if got != src.contains(&day) {
                    rep.violation("calendar_membership", format!("{code} {kind} {day}: embedded = {got}, source file = {}", !got), json!({"country": code, "kind": kind, "date": day.to_string()}), None);
                    if rep.full() {
                        return;
                    }
                }
                day = day.succ_opt().unwrap();
            }
            rep.add("days_swept", (hi - lo).num_days() as u64 + 1);
            rep.add(&format!("members_seen_{kind}"), members);
            // 2. the calendar as a set: count / iter
            let listed: Vec<NaiveDate> = src.iter().copied().collect();
            let embedded: Vec<NaiveDate> = cal.iter().collect();
            if embedded != listed || cal.count() as usize != listed.len() {
                let extra: Vec<_> = embedded.iter().filter(|d| !src.contains(d)).take(3).collect();
                let missing: Vec<_> = listed.iter().filter(|d| !embedded.contains(d)).take(3).collect();
                rep.violation("calendar_set", format!("{code} {kind}: embedded calendar has {} dates, source {}; extra {extra:?} missing {missing:?}", embedded.len(), listed.len()), json!({"country": code, "kind": kind}), None);
            }
            rep.add("listed_dates", listed.len() as u64);
            if !listed.is_empty() {
                rep.count("distinct_enumerated");
            }
            // 3. PH / SH see exactly these dates when the calendar is attached
            let sel = if kind == "public" { "PH" } else { "SH" };
            let oh = OpeningHours::parse(sel).unwrap().with_context(Context::default().with_holidays(hol.clone()));
            let mut probe_days: Vec<NaiveDate> = listed.clone();
            // unlisted days: neighbours of listed ones and a stride over the sweep range
            for d0 in &listed {
                probe_days.extend(d0.pred_opt());
                probe_days.extend(d0.succ_opt());
            }
            let mut day = lo + chrono::Duration::days((i % 7) as i64);
            while day <= hi {
                probe_days.push(day);
                day += chrono::Duration::days(11);
            }
            for pd in probe_days {
                if !(1900..=9999).contains(&pd.year()) {
                    continue;
                }
                rep.evaluations += 1;
                let r = guarded(|| {
                    let sched: Vec<_> = oh.schedule_at(pd).into_iter().collect();
                    let st = oh.state(pd.and_hms_opt(12, 0, 0).unwrap());
                    (sched, st)
                });
                match r {
                    Err(p) => rep.violation("panic", format!("{sel} with {code} on {pd}: {p}"), json!({"country": code, "kind": kind, "date": pd.to_string()}), None),
                    Ok((sched, st)) => {
                        let open_all_day = sched.len() == 1 && sched[0].kind == RuleKind::Open;
                        let closed_all_day = sched.len() == 1 && sched[0].kind == RuleKind::Closed;
                        let exp = src.contains(&pd);
                        if (exp && !(open_all_day && st == RuleKind::Open)) || (!exp && !(closed_all_day && st == RuleKind::Closed)) {
                            rep.violation("selector_sees_calendar", format!("'{sel}' with the {code} calendar on {pd}: state {st}, schedule {sched:?}; the source file lists the date: {exp}"), json!({"country": code, "kind": kind, "date": pd.to_string()}), None);
                            if rep.full() {
                                return;
                            }
                        }
                        rep.count(if exp { "selector_probes_on_listed" } else { "selector_probes_on_unlisted" });
                    }
                }
            }
        }
        rep.count("countries_checked");
        if i < 2 {
            rep.sample(|| json!({"country": code, "public_listed": public.get(code).map(|s| s.len()), "school_listed": school.get(code).map(|s| s.len()), "first_public": public.get(code).and_then(|s| s.iter().next()).map(|d| d.to_string())}));
        }
    }
    // lookup histories: every ordered pair of countries looked up back to back, and long random
    // sequences of lookups (a memo keyed on too little, or an eviction slip of a small cache, is
    // only visible after particular predecessors); each result is compared with the source as a set
    let same = |c: &Country, hol: &opening_hours::ContextHolidays| -> Option<String> {
        let code = c.iso_code();
        for (kind, src, cal) in [("public", public.get(code).unwrap_or(&empty), hol.get_public()), ("school", school.get(code).unwrap_or(&empty), hol.get_school())] {
            if cal.count() as usize != src.len() || !cal.iter().eq(src.iter().copied()) {
                return Some(format!("{code} {kind}: {} dates, first {:?}; source file: {} dates, first {:?}", cal.count(), cal.iter().next(), src.len(), src.iter().next()));
            }
        }
        None
    };
    let n = Country::ALL.len();
    let mut idx = 0u64;
    'pairs: for a in Country::ALL.iter() {
        for b in Country::ALL.iter() {
            idx += 1;
            if (idx - 1) % of != args.worker {
                continue;
            }
            rep.evaluations += 1;
            rep.count("ordered_pairs_of_lookups");
            match guarded(|| (a.holidays(), b.holidays())) {
                Err(p) => rep.violation("panic", format!("{}.holidays() then {}.holidays() panicked: {p}", a.iso_code(), b.iso_code()), json!({"country": b.iso_code(), "before": a.iso_code()}), None),
                Ok((_, hb)) => {
                    if let Some(diff) = same(b, &hb) {
                        rep.violation("calendar_depends_on_history", format!("looked up right after {}: {diff}", a.iso_code()), json!({"country": b.iso_code(), "before": [a.iso_code()]}), None);
                        if rep.full() {
                            break 'pairs;
                        }
                    }
                }
            }
        }
    }
    for k in 0..(if args.thorough() { 200 } else { 12 }) {
        let mut r = crate::rng::Rng::new(args.seed, 0xc10 + args.worker, k);
        let mut trail: Vec<&str> = Vec::new();
        for _ in 0..(3 * n) {
            let c = &Country::ALL[r.below(n as u64) as usize];
            rep.evaluations += 1;
            rep.count("lookups_in_random_sequences");
            if let Ok(h) = guarded(|| c.holidays()) {
                if let Some(diff) = same(c, &h) {
                    let before: Vec<&str> = trail.iter().rev().take(40).rev().copied().collect();
                    rep.violation("calendar_depends_on_history", format!("after the lookups {before:?}: {diff}"), json!({"country": c.iso_code(), "before": before}), None);
                    break;
                }
            }
            trail.push(c.iso_code());
        }
    }
    rep.require("countries_checked", 100);
    rep.require("listed_dates", 100_000);
    rep.require("selector_probes_on_listed", 100_000);
}

pub fn replay(case: &Value, rep: &mut Report) {
    let _ = case;
    let args = Args { monitor: "C10".into(), seed: 0, worker: 0, of: 1, tier: "quick".into(), out: None, known: vec![], replay: None, scale: 1.0, extra: vec![] };
    run(&args, rep);
}
