//! C12 — Python bindings return what the Rust core returns.
//!
//! This module is the generator / expectation side: `ohv C12 --extra mode=gen --extra cases=FILE`
//! writes constructor argument combinations, calls and the answers the Rust core gives for the
//! context the constructor's documentation prescribes. `/verif/py/c12_driver.py` replays them in
//! CPython against the built extension module and compares.

use super::common::*;
use crate::gen::expr::{self, GenCfg, SelKind};
use crate::out::{guarded, Args, Report};
use crate::render;
use crate::rng::Rng;
use crate::stream;
use chrono::offset::LocalResult;
use chrono::{DateTime, Datelike, Duration, NaiveDate, NaiveDateTime, Offset, TimeZone, Timelike};
use chrono_tz::Tz;
use opening_hours::localization::{Coordinates, Country, Localize, TzLocation};
use opening_hours::{Context, ContextHolidays, OpeningHours, DATE_END};
use opening_hours_syntax::rules::time::Time;
use opening_hours_syntax::rules::OpeningHoursExpression;
use serde_json::{json, Value};

const PY_ZONES: [&str; 10] = ["Europe/Paris", "America/New_York", "Asia/Kolkata", "Australia/Lord_Howe", "UTC", "Pacific/Auckland", "America/Sao_Paulo", "Europe/Dublin", "Asia/Tokyo", "Africa/Casablanca"];
const INVALID_EXPRS: [&str; 10] = ["", "24/24", "Mo-Fr 25:00-26:00", "not an expression", "Mo 10:00-12:60", "Jan 32", "week 54", "\"unbalanced", "Mo[6]", "10:00"];
const SITES: [(f64, f64); 6] = [(48.8566, 2.3522), (40.7128, -74.0060), (35.6762, 139.6503), (-33.8688, 151.2093), (19.4326, -99.1332), (64.1466, -21.9426)];
const BAD_COORDS: [(f64, f64); 4] = [(91.0, 0.0), (0.0, 181.0), (-90.5, 10.0), (1000.0, 1000.0)];

enum Exp {
    Naive(stream::Oh),
    Zoned(OpeningHours<TzLocation<Tz>>, Tz),
}

fn has_events(e: &OpeningHoursExpression) -> bool {
    e.rules.iter().any(|r| r.time_selector.time.iter().any(|s| matches!(s.range.start, Time::Variable(_)) || matches!(s.range.end, Time::Variable(_))))
}

fn rdt_naive(t: NaiveDateTime) -> Value {
    json!({"local": [t.year(), t.month(), t.day(), t.hour(), t.minute(), t.second()], "zone": null, "offset": null})
}

fn rdt_aware(t: &DateTime<Tz>) -> Value {
    let l = t.naive_local();
    let ambiguous = matches!(t.timezone().from_local_datetime(&l), LocalResult::Ambiguous(..));
    json!({"local": [l.year(), l.month(), l.day(), l.hour(), l.minute(), l.second()], "zone": t.timezone().name(), "offset": t.offset().fix().local_minus_utc(), "ambiguous": ambiguous})
}

#[derive(Clone)]
enum In {
    Naive(NaiveDateTime),
    Aware(DateTime<Tz>),
}

impl In {
    fn json(&self) -> Value {
        match self {
            In::Naive(t) => json!({"naive": [t.year(), t.month(), t.day(), t.hour(), t.minute(), t.second()]}),
            // at the edges of the range the instant in UTC may not be representable in Python:
            // the driver builds these (fixed-offset zones only) from their local fields
            In::Aware(t) if t.naive_local().year() >= 9999 || t.naive_local().year() <= 1900 => {
                let l = t.naive_local();
                json!({"aware_local": [l.year(), l.month(), l.day(), l.hour(), l.minute(), l.second()], "zone": t.timezone().name()})
            }
            In::Aware(t) => json!({"ts": t.timestamp(), "zone": t.timezone().name()}),
        }
    }

    fn zone(&self) -> Option<Tz> {
        match self {
            In::Naive(_) => None,
            In::Aware(t) => Some(t.timezone()),
        }
    }
}

/// naive datetime seen by the evaluation for this input, and (for zoned contexts) the instant
fn to_zoned(tz: Tz, i: &In) -> Option<DateTime<Tz>> {
    match i {
        In::Aware(t) => Some(t.with_timezone(&tz)),
        In::Naive(n) => match tz.from_local_datetime(n) {
            LocalResult::None => None,
            LocalResult::Single(x) => Some(x),
            LocalResult::Ambiguous(a, _) => Some(a),
        },
    }
}

fn out_dt_naive_ctx(n: NaiveDateTime, prefer: Option<Tz>) -> Value {
    match prefer {
        None => rdt_naive(n),
        Some(tz) => rdt_aware(&TzLocation::new(tz).datetime(n)),
    }
}

const BUDGET: u64 = 2_500;

/// zones whose offset is fixed at the end of the supported range / at its start
const FIXED_UPPER: [&str; 6] = ["UTC", "Asia/Tokyo", "Asia/Kolkata", "Etc/GMT+12", "Etc/GMT-14", "Pacific/Honolulu"];
const FIXED_LOWER: [&str; 3] = ["UTC", "Etc/GMT+12", "Etc/GMT-14"];

/// An aware datetime whose LOCAL time lies in the last 30 hours of 9999 (upper) or within a day
/// of 1900-01-01T00:00 (lower), in a fixed-offset zone.
fn edge_aware(r: &mut Rng, upper: bool) -> In {
    let (z, local): (Tz, NaiveDateTime) = if upper {
        let end = NaiveDate::from_ymd_opt(9999, 12, 31).unwrap().and_hms_opt(23, 59, 59).unwrap();
        let back = match r.below(4) {
            0 => r.range(0, 120),
            1 => r.range(0, 14 * 3600),
            _ => r.range(0, 30 * 3600),
        };
        (r.pick(&FIXED_UPPER).parse().unwrap(), end - Duration::seconds(back))
    } else {
        let start = NaiveDate::from_ymd_opt(1900, 1, 1).unwrap().and_hms_opt(0, 0, 0).unwrap();
        (r.pick(&FIXED_LOWER).parse().unwrap(), start + Duration::seconds(r.range(-20 * 3600, 30 * 3600)))
    };
    In::Aware(z.from_local_datetime(&local).earliest().unwrap_or_else(|| z.from_utc_datetime(&local)))
}

fn expect_calls(exp: &Exp, r: &mut Rng, ast: &OpeningHoursExpression, n_calls: usize) -> Vec<Value> {
    let mut calls = Vec::new();
    for _ in 0..n_calls {
        let base = super::c03::gen_instant(r, ast);
        let base = base.with_nanosecond(0).unwrap();
        let base = if base.year() > 9990 { base.with_year(9990).unwrap_or(base) } else { base };
        // edges of the supported range with aware datetimes: only in zones whose offset is fixed there
        // (tzdata and chrono-tz agree by construction), under a naive or fixed-offset context
        let ctx_zone: Option<Tz> = match exp {
            Exp::Naive(_) => None,
            Exp::Zoned(_, tz) => Some(*tz),
        };
        let edge_upper = ctx_zone.map(|z| FIXED_UPPER.contains(&z.name())).unwrap_or(true) && r.chance(10);
        let edge_lower = !edge_upper && ctx_zone.map(|z| z.name() == "UTC").unwrap_or(true) && r.chance(4);
        let edge = edge_upper || edge_lower;
        let input = if edge {
            edge_aware(r, edge_upper)
        } else if r.chance(45) {
            In::Naive(base)
        } else {
            let z: Tz = r.pick(&PY_ZONES).parse().unwrap();
            // aware inputs within the range Python's zoneinfo and time_t handle identically
            let y = r.range(1971, 2036) as i32;
            let t = base.with_year(y).unwrap_or(NaiveDate::from_ymd_opt(y, 3, 1).unwrap().and_time(base.time()));
            In::Aware(z.from_utc_datetime(&t))
        };
        let method = *r.pick(&["state", "is_open", "is_closed", "is_unknown", "next_change", "intervals", "intervals_end", "state", "next_change"]);
        let call = match exp {
            Exp::Naive(oh) => {
                let n = match &input {
                    In::Naive(t) => *t,
                    In::Aware(t) => t.naive_local(),
                };
                match method {
                    "state" => Some(json!(oh.state(n).to_string())),
                    "is_open" => Some(json!(oh.is_open(n))),
                    "is_closed" => Some(json!(oh.is_closed(n))),
                    "is_unknown" => Some(json!(oh.is_unknown(n))),
                    "next_change" => match stream::with_day_budget(BUDGET, || oh.next_change(n)) {
                        Ok(Some(x)) => Some(x.map(|u| out_dt_naive_ctx(u, input.zone())).unwrap_or(Value::Null)),
                        _ => None,
                    },
                    _ => {
                        let end_in = if method == "intervals_end" && edge {
                            Some(edge_aware(r, edge_upper))
                        } else if method == "intervals_end" {
                            let span = Duration::minutes(r.range(1, 40 * 1440));
                            // aware datetimes only in years where Python's tzdata and chrono-tz agree
                            let modern = |t: &NaiveDateTime| (1971..=2036).contains(&t.year());
                            let mixed = r.chance(30) && match &input {
                                In::Naive(t) => modern(t),
                                In::Aware(_) => true,
                            };
                            Some(match (&input, mixed) {
                                (In::Naive(t), false) => In::Naive(*t + span),
                                (In::Aware(t), false) => In::Aware(t.clone() + span),
                                (In::Naive(t), true) => In::Aware(chrono_tz::Europe::Paris.from_utc_datetime(&(*t + span)).with_timezone(&PY_ZONES[r.below(4) as usize].parse::<Tz>().unwrap())),
                                (In::Aware(t), true) => In::Naive((t.clone() + span).naive_local()),
                            })
                        } else {
                            None
                        };
                        let prefer = input.zone().or(end_in.as_ref().and_then(|e| e.zone()));
                        let n_end = end_in.as_ref().map(|e| match e {
                            In::Naive(t) => *t,
                            In::Aware(t) => t.naive_local(),
                        });
                        let got = stream::with_day_budget(BUDGET, || match n_end {
                            Some(e) => oh.iter_range(n, e).take(8).collect::<Vec<_>>(),
                            None => oh.iter_from(n).take(8).collect::<Vec<_>>(),
                        });
                        match got {
                            Ok(Some(ivs)) => {
                                let list: Vec<Value> = ivs
                                    .iter()
                                    .map(|iv| {
                                        let end = if iv.range.end == DATE_END { Value::Null } else { out_dt_naive_ctx(iv.range.end, prefer) };
                                        json!([out_dt_naive_ctx(iv.range.start, prefer), end, iv.kind.to_string(), iv.comments.iter().map(|c| c.to_string()).collect::<Vec<_>>()])
                                    })
                                    .collect();
                                calls.push(json!({"method": "intervals", "dt": input.json(), "end": end_in.as_ref().map(|e| e.json()), "expect": list}));
                                None
                            }
                            _ => None,
                        }
                    }
                }
            }
            Exp::Zoned(oh, tz) => {
                let Some(i) = to_zoned(*tz, &input) else { continue };
                match method {
                    "state" => Some(json!(oh.state(i).to_string())),
                    "is_open" => Some(json!(oh.is_open(i))),
                    "is_closed" => Some(json!(oh.is_closed(i))),
                    "is_unknown" => Some(json!(oh.is_unknown(i))),
                    "next_change" => match stream::with_day_budget(BUDGET, || oh.next_change(i.clone())) {
                        Ok(Some(x)) => Some(x.map(|u| rdt_aware(&u)).unwrap_or(Value::Null)),
                        _ => None,
                    },
                    _ => {
                        let end_in = if method == "intervals_end" && edge {
                            Some(edge_aware(r, edge_upper))
                        } else if method == "intervals_end" {
                            let span = Duration::minutes(r.range(1, 40 * 1440));
                            let e = i.clone() + span;
                            Some(if r.chance(30) || !(1971..=2036).contains(&e.year()) {
                                match tz.from_local_datetime(&e.naive_local()) {
                                    LocalResult::None => continue,
                                    _ => In::Naive(e.naive_local()),
                                }
                            } else {
                                In::Aware(e.with_timezone(&PY_ZONES[r.below(6) as usize].parse::<Tz>().unwrap()))
                            })
                        } else {
                            None
                        };
                        let e_i = match &end_in {
                            None => None,
                            Some(e) => match to_zoned(*tz, e) {
                                Some(x) => Some(x),
                                None => continue,
                            },
                        };
                        let got = stream::with_day_budget(BUDGET, || match e_i.clone() {
                            Some(e) => oh.iter_range(i.clone(), e).take(8).collect::<Vec<_>>(),
                            None => oh.iter_from(i.clone()).take(8).collect::<Vec<_>>(),
                        });
                        match got {
                            Ok(Some(ivs)) => {
                                let list: Vec<Value> = ivs
                                    .iter()
                                    .map(|iv| {
                                        let end = if iv.range.end.naive_local() == DATE_END { Value::Null } else { rdt_aware(&iv.range.end) };
                                        json!([rdt_aware(&iv.range.start), end, iv.kind.to_string(), iv.comments.iter().map(|c| c.to_string()).collect::<Vec<_>>()])
                                    })
                                    .collect();
                                calls.push(json!({"method": "intervals", "dt": input.json(), "end": end_in.as_ref().map(|e| e.json()), "expect": list}));
                                None
                            }
                            _ => None,
                        }
                    }
                }
            }
        };
        if let Some(expect) = call {
            calls.push(json!({"method": method, "dt": input.json(), "expect": expect}));
        }
    }
    calls
}

fn tri(r: &mut Rng) -> Value {
    match r.below(4) {
        0 => json!(true),
        1 => json!(false),
        2 => Value::Null,
        _ => json!("omit"),
    }
}

fn flag(v: &Value) -> bool {
    // `None` and an omitted argument both mean the default, which is True
    v.as_bool().unwrap_or(true)
}


/// Gap cases: a context WITHOUT a zone, an aware input shortly before a forward transition of its
/// own zone, and an expression whose bounds lie inside the skipped wall-clock span: the naive result
/// is a local time that does not exist in the input's zone and has to come back as the first valid
/// instant after it (what the core's `TzLocation::datetime` gives). Every zone of the database x
/// every forward transition of the given years.
fn gap_cases(args: &Args, rep: &mut Report, first_id: u64) -> Vec<Value> {
    let mut cases = Vec::new();
    let mut cache = std::collections::HashMap::new();
    let years: Vec<i32> = if args.thorough() { (1971..=2036).collect() } else { vec![1975, 1988, 1993, 2000, 2006, 2010, 2011, 2016, 2021, 2022, 2024] };
    let mut id = first_id;
    for tz in chrono_tz::TZ_VARIANTS.iter() {
        for &year in &years {
            for tr in super::c09::transitions(*tz, year, &mut cache) {
                let (at_utc, before, after) = tr;
                if after <= before || at_utc.date().year() != year {
                    continue;
                }
                // skipped wall-clock span [gap_start, gap_end)
                let gap_start = at_utc + Duration::seconds(before as i64);
                let gap_len = (after - before) as i64;
                let mut r = Rng::new(args.seed, 0x6a9, id);
                // a bound strictly inside the gap (minute-aligned) when the gap holds one
                let inside = (gap_start + Duration::seconds(r.range(1, gap_len.max(2)))).with_second(0).unwrap();
                let inside = if inside < gap_start { inside + Duration::minutes(1) } else { inside };
                if inside >= gap_start + Duration::seconds(gap_len) || inside.date() != gap_start.date() {
                    continue;
                }
                let (h, m) = (inside.hour(), inside.minute());
                let end = inside + Duration::hours(4);
                let text = format!("{:02}:{:02}-{:02}:{:02}", h, m, if end.date() != inside.date() { end.hour() + 24 } else { end.hour() }, end.minute());
                let Ok(Ok(oh)) = guarded(|| OpeningHours::parse(&text)) else { continue };
                let input = In::Aware(tz.from_utc_datetime(&(at_utc - Duration::minutes(r.range(1, 240)))));
                let n = match &input {
                    In::Aware(t) => t.naive_local(),
                    In::Naive(t) => *t,
                };
                let mut calls = Vec::new();
                // the input as chrono-tz sees it: the driver skips the call when Python's tzdata shows
                // another wall-clock reading for the same instant (the two databases then disagree
                // about this very transition, and the input is not the one the expectation is for)
                let mut dt_json = input.json();
                dt_json["local"] = json!([n.year(), n.month(), n.day(), n.hour(), n.minute(), n.second()]);
                let input_json = dt_json;
                if let Ok(Some(x)) = stream::with_day_budget(BUDGET, || oh.next_change(n)) {
                    calls.push(json!({"method": "next_change", "dt": input_json.clone(), "expect": x.map(|u| out_dt_naive_ctx(u, Some(*tz))).unwrap_or(Value::Null)}));
                }
                if let Ok(Some(ivs)) = stream::with_day_budget(BUDGET, || oh.iter_from(n).take(3).collect::<Vec<_>>()) {
                    let list: Vec<Value> = ivs
                        .iter()
                        .map(|iv| {
                            let end = if iv.range.end == DATE_END { Value::Null } else { out_dt_naive_ctx(iv.range.end, Some(*tz)) };
                            json!([out_dt_naive_ctx(iv.range.start, Some(*tz)), end, iv.kind.to_string(), iv.comments.iter().map(|c| c.to_string()).collect::<Vec<_>>()])
                        })
                        .collect();
                    calls.push(json!({"method": "intervals", "dt": input_json.clone(), "end": Value::Null, "expect": list, "take": 3}));
                }
                let s = oh.to_string();
                let ctor = json!({"oh": text, "timezone": Value::Null, "country": Value::Null, "coords": Value::Null, "auto_country": "omit", "auto_timezone": "omit"});
                cases.push(json!({"id": id, "ctor": ctor, "validate": true, "str": s, "repr": format!("OpeningHours({:?})", s), "normalize_str": oh.normalize().to_string(), "context": "naive", "calls": calls, "gap_case": true}));
                rep.count("gap_cases");
                rep.evaluations += 1;
                id += 1;
            }
        }
    }
    cases
}

pub fn gen(args: &Args, rep: &mut Report, path: &str, n: u64) {
    let mut cases = Vec::new();
    for k in 0..n {
        let mut r = Rng::new(args.seed, 0xc12, k);
        let mut cfg = GenCfg::standard(false).rotated(k);
        cfg.max_rules = 3;
        if k % 4 == 0 {
            cfg.focus = Some(SelKind::Time);
            cfg.focus_pct = 60;
        }
        let ast = expr::gen_expr(&mut r, &cfg);
        if !denotable(&ast) {
            continue;
        }
        let mut v = render::Variants::random(Rng::new(args.seed ^ 0x12, 0, k));
        let valid_text = render::expr(&mut v, &ast);
        let expr_invalid = r.chance(8);
        let text = if expr_invalid { r.pick(&INVALID_EXPRS).to_string() } else { valid_text };
        let timezone: Option<Tz> = if r.chance(45) { Some(r.pick(&PY_ZONES).parse().unwrap()) } else { None };
        let country: Option<String> = match r.below(10) {
            0..=5 => None,
            6..=8 => Some(Country::ALL[r.below(Country::ALL.len() as u64) as usize].iso_code().to_string()),
            _ => Some(r.pick(&["XX", "fr", "", "FRA", "ZZ"]).to_string()),
        };
        let coords: Option<(f64, f64)> = match r.below(10) {
            0..=4 => None,
            5..=8 => Some(*r.pick(&SITES)),
            _ => Some(*r.pick(&BAD_COORDS)),
        };
        let (auto_country, auto_timezone) = (tri(&mut r), tri(&mut r));
        // expected outcome of the constructor
        let mut errors: Vec<&str> = Vec::new();
        let coords_valid = coords.map(|(a, b)| Coordinates::new(a, b));
        if matches!(coords_valid, Some(None)) {
            errors.push("InvalidCoordinatesError");
        }
        let parsed = guarded(|| OpeningHours::parse(&text));
        let parse_ok = matches!(parsed, Ok(Ok(_)));
        if !parse_ok {
            errors.push("ParserError");
        }
        let country_parsed = country.as_ref().map(|c| c.parse::<Country>());
        if matches!(country_parsed, Some(Err(_))) {
            errors.push("UnknownCountryError");
        }
        let ctor = json!({"oh": text, "timezone": timezone.map(|t| t.name()), "country": country, "coords": coords.map(|(a, b)| json!([a, b])), "auto_country": auto_country, "auto_timezone": auto_timezone});
        let mut case = json!({"id": k, "ctor": ctor, "validate": parse_ok});
        if !errors.is_empty() {
            case["expect_errors"] = json!(errors);
            cases.push(case);
            rep.count("ctor_error_cases");
            continue;
        }
        let oh = parsed.unwrap().unwrap();
        let coords = coords_valid.flatten();
        // documented context
        let holidays: ContextHolidays = match (&country_parsed, coords) {
            (Some(Ok(c)), _) => c.holidays(),
            (None, Some(c)) if flag(&auto_country) => Context::from_coords(c).holidays,
            _ => ContextHolidays::default(),
        };
        let mut judge_events = true;
        let exp = match (timezone, coords) {
            (Some(tz), None) => Exp::Zoned(oh.clone().with_context(Context::default().with_holidays(holidays).with_locale(TzLocation::new(tz))), tz),
            (Some(tz), Some(c)) => {
                if !flag(&auto_timezone) {
                    // timezone + coords + auto_timezone=False: whether coordinates are kept for sun
                    // events is not settled by the documentation
                    judge_events = false;
                }
                Exp::Zoned(oh.clone().with_context(Context::default().with_holidays(holidays).with_locale(TzLocation::new(tz).with_coords(c))), tz)
            }
            (None, Some(c)) if flag(&auto_timezone) => {
                let loc = TzLocation::from_coords(c);
                let tz = *loc.get_timezone();
                Exp::Zoned(oh.clone().with_context(Context::default().with_holidays(holidays).with_locale(loc)), tz)
            }
            _ => Exp::Naive(oh.clone().with_context(Context::default().with_holidays(holidays))),
        };
        if !judge_events && has_events(&ast) {
            rep.count("skipped_unsettled_constructor_combination");
            continue;
        }
        let s = oh.to_string();
        case["str"] = json!(s);
        case["repr"] = json!(format!("OpeningHours({:?})", s));
        case["normalize_str"] = json!(oh.normalize().to_string());
        case["context"] = json!(match &exp {
            Exp::Naive(_) => "naive".to_string(),
            Exp::Zoned(_, tz) => tz.name().to_string(),
        });
        let calls = expect_calls(&exp, &mut r, &ast, 10);
        rep.add("calls_generated", calls.len() as u64);
        case["calls"] = json!(calls);
        rep.count("object_cases");
        rep.count(&format!("ctor.tz_{}.country_{}.coords_{}", timezone.is_some(), country.is_some(), coords.is_some()));
        rep.nontrivial(crate::rng::hash64(&format!("{ctor}")));
        if cases.len() < 3 {
            rep.sample(|| case.clone());
        }
        rep.evaluations += 1;
        cases.push(case);
    }
    let gaps = gap_cases(args, rep, n + 1);
    cases.extend(gaps);
    // validate(): a table of valid and invalid strings
    let mut validate = Vec::new();
    for s in INVALID_EXPRS {
        validate.push(json!({"s": s, "expect": OpeningHours::parse(s).is_ok()}));
    }
    for k in 0..300u64 {
        let mut r = Rng::new(args.seed, 0xa11d, k);
        let ast = expr::gen_expr(&mut r, &GenCfg::standard(false));
        let mut text = render::plain(&ast);
        if r.chance(40) && !text.is_empty() {
            // token-level damage
            let pos = r.below(text.len() as u64) as usize;
            if text.is_char_boundary(pos) {
                let tok: &str = *r.pick(&["[", "\"", "25:00", "/0", " -", "x"][..]);
                text.insert_str(pos, tok);
            }
        }
        let ok = matches!(guarded(|| OpeningHours::parse(&text)), Ok(Ok(_)));
        validate.push(json!({"s": text, "expect": ok}));
    }
    std::fs::write(path, serde_json::to_string(&json!({"seed": args.seed, "cases": cases, "validate": validate})).unwrap()).expect("write cases");
}

pub fn run(args: &Args, rep: &mut Report) {
    let path = args.extra.iter().find_map(|e| e.strip_prefix("cases=")).unwrap_or("/verif/work/C12/cases.json").to_string();
    let n = args.cases(40_000, 600_000);
    gen(args, rep, &path, n);
}

pub fn replay(_args: &Args, _case: &Value, rep: &mut Report) {
    // replay of a C12 witness is done by the Python driver (./check C12 --replay passes the case through)
    rep.evaluations += 1;
}
