//! C14 — Schedule algebra: overlay semantics and gap-free day iteration.

use crate::out::{guarded, Args, Report};
use crate::rng::Rng;
use opening_hours::schedule::Schedule;
use opening_hours_syntax::sorted_vec::UniqueSortedVec;
use opening_hours_syntax::{ExtendedTime, RuleKind};
use serde_json::{json, Value};
use std::ops::Range;
use std::sync::Arc;

pub const KINDS: [RuleKind; 3] = [RuleKind::Open, RuleKind::Closed, RuleKind::Unknown];

pub fn et(mins: u16) -> ExtendedTime {
    ExtendedTime::from_mins_from_midnight(mins).unwrap()
}

pub fn kind_str(k: RuleKind) -> &'static str {
    k.as_str()
}

/// Structural invariant of a live schedule (read through hook H4).
pub fn check_structure(s: &Schedule) -> Result<(), String> {
    let mut last_end: Option<ExtendedTime> = None;
    for tr in s.verif_ranges() {
        if tr.range.start >= tr.range.end {
            return Err(format!("empty or inverted range {:?}", tr.range));
        }
        if tr.range.end > ExtendedTime::MIDNIGHT_24 {
            return Err(format!("range {:?} exceeds 24:00", tr.range));
        }
        if let Some(e) = last_end {
            if tr.range.start < e {
                return Err(format!("range {:?} starts before the previous one ends ({e:?})", tr.range));
            }
        }
        if !tr.comments.windows(2).all(|w| w[0] < w[1]) {
            return Err(format!("comments not strictly increasing: {:?}", tr.comments.as_slice()));
        }
        last_end = Some(tr.range.end);
    }
    Ok(())
}

/// Minute array of a schedule as seen through its live ranges (None = not covered).
pub fn paint_live(s: &Schedule) -> Vec<Option<RuleKind>> {
    let mut v = vec![None; 1440];
    for tr in s.verif_ranges() {
        for m in tr.range.start.mins_from_midnight()..tr.range.end.mins_from_midnight().min(1440) {
            v[m as usize] = Some(tr.kind);
        }
    }
    v
}

/// Check the iteration contract and return the minute array it describes.
pub fn check_iteration(s: &Schedule) -> Result<Vec<RuleKind>, String> {
    let mut v = vec![RuleKind::Closed; 1440];
    let mut pos = ExtendedTime::MIDNIGHT_00;
    let mut prev_kind: Option<RuleKind> = None;
    let mut n = 0;
    for tr in s.clone() {
        n += 1;
        if n > 3000 {
            return Err("iteration does not end".into());
        }
        if tr.range.start != pos {
            return Err(format!("yielded range {:?} does not start where the previous one ended ({pos:?})", tr.range));
        }
        if tr.range.start >= tr.range.end {
            return Err(format!("yielded empty range {:?}", tr.range));
        }
        if tr.range.end > ExtendedTime::MIDNIGHT_24 {
            return Err(format!("yielded range {:?} exceeds 24:00", tr.range));
        }
        if prev_kind == Some(tr.kind) {
            return Err(format!("two adjacent yielded ranges of kind {} (second {:?})", tr.kind, tr.range));
        }
        if !tr.comments.windows(2).all(|w| w[0] < w[1]) {
            return Err(format!("comments not strictly increasing: {:?}", tr.comments.as_slice()));
        }
        for m in tr.range.start.mins_from_midnight()..tr.range.end.mins_from_midnight() {
            v[m as usize] = tr.kind;
        }
        prev_kind = Some(tr.kind);
        pos = tr.range.end;
    }
    if pos != ExtendedTime::MIDNIGHT_24 {
        return Err(format!("iteration stops at {pos:?} instead of 24:00"));
    }
    Ok(v)
}

fn first_diff<T: PartialEq + std::fmt::Debug>(a: &[T], b: &[T]) -> Option<String> {
    (0..a.len()).find(|&i| a[i] != b[i]).map(|i| format!("{:02}:{:02}: got {:?}, expected {:?}", i / 60, i % 60, a[i], b[i]))
}

type Op = (Vec<(u16, u16)>, RuleKind);

fn paint_ranges(v: &mut [Option<RuleKind>], rs: &[(u16, u16)], k: RuleKind) {
    for (s, e) in rs {
        if s < e {
            for m in *s..(*e).min(1440) {
                v[m as usize] = Some(k);
            }
        }
    }
}

fn build(op: &Op, tag: &str) -> Schedule {
    let comments: UniqueSortedVec<Arc<str>> = vec![Arc::from(tag)].into();
    Schedule::from_ranges(op.0.iter().map(|(s, e)| et(*s)..et(*e)), op.1, &comments)
}

/// from_ranges then successive additions; everything compared to a painted array.
fn check_sequence(ops: &[Op]) -> Result<(), String> {
    let mut model: Vec<Option<RuleKind>> = vec![None; 1440];
    let mut acc: Option<Schedule> = None;
    for (i, op) in ops.iter().enumerate() {
        let tag = match TAG_MODE.with(|m| m.get()) {
            0 => format!("c{i}"),
            1 => "x".to_string(),
            2 => format!("t{}", i % 2),
            _ => kind_str(op.1).to_string(),
        };
        let s = build(op, &tag);
        check_structure(&s).map_err(|e| format!("from_ranges #{i}: {e}"))?;
        let mut single = vec![None; 1440];
        paint_ranges(&mut single, &op.0, op.1);
        if let Some(d) = first_diff(&paint_live(&s), &single) {
            return Err(format!("from_ranges #{i} is not the union of its inputs at {d}"));
        }
        let is_empty_expected = single.iter().all(|x| x.is_none());
        if s.is_empty() != is_empty_expected {
            return Err(format!("from_ranges #{i}: is_empty() = {}", s.is_empty()));
        }
        paint_ranges(&mut model, &op.0, op.1);
        let next = match acc.take() {
            None => s,
            Some(a) => a.addition(s),
        };
        check_structure(&next).map_err(|e| format!("after addition #{i}: {e}"))?;
        if let Some(d) = first_diff(&paint_live(&next), &model) {
            return Err(format!("after addition #{i}: minute {d}"));
        }
        let iterated = check_iteration(&next).map_err(|e| format!("iterating after #{i}: {e}"))?;
        let exp: Vec<RuleKind> = model.iter().map(|x| x.unwrap_or(RuleKind::Closed)).collect();
        if let Some(d) = first_diff(&iterated, &exp) {
            return Err(format!("iteration after #{i}: minute {d}"));
        }
        acc = Some(next);
    }
    Ok(())
}

fn ops_json(ops: &[Op]) -> Value {
    json!({"ops": ops.iter().map(|(rs, k)| json!({"kind": kind_str(*k), "ranges": rs.iter().map(|(s, e)| json!([s, e])).collect::<Vec<_>>()})).collect::<Vec<_>>()})
}

thread_local! {
    /// how the operands of a sequence are tagged with comments: 0 = one tag per operand, 1 = the same
    /// tag for all, 2 = two alternating tags, 3 = a tag per kind
    static TAG_MODE: std::cell::Cell<u8> = const { std::cell::Cell::new(0) };
    /// which tagging modes run_case goes through (bit mask)
    static TAG_MODES: std::cell::Cell<u8> = const { std::cell::Cell::new(0b1111) };
}

fn run_case(rep: &mut Report, ops: &[Op]) {
    // (merging decisions look at comments as well as kinds: every sequence under each tagging)
    for mode in 0..4u8 {
        if mode > 0 && ops.len() < 2 {
            break;
        }
        if TAG_MODES.with(|m| m.get()) & (1 << mode) == 0 {
            continue;
        }
        TAG_MODE.with(|m| m.set(mode));
        rep.evaluations += 1;
        let res = guarded(|| check_sequence(ops));
        TAG_MODE.with(|m| m.set(0));
        let mut case = ops_json(ops);
        case["tag_mode"] = json!(mode);
        match res {
            Ok(Ok(())) => {}
            Ok(Err(msg)) => {
                rep.violation("schedule_algebra", format!("{msg} [comment tagging mode {mode}]"), case, None);
                return;
            }
            Err(p) => {
                rep.violation("panic", format!("panic: {p}"), case, None);
                return;
            }
        }
    }
}

fn range_sets(pairs: &[(u16, u16)], max: usize) -> Vec<Vec<(u16, u16)>> {
    let mut out = vec![vec![]];
    let mut frontier: Vec<Vec<(u16, u16)>> = vec![vec![]];
    for _ in 0..max {
        let mut next = Vec::new();
        for f in &frontier {
            for p in pairs {
                let mut n = f.clone();
                n.push(*p);
                next.push(n);
            }
        }
        out.extend(next.iter().cloned());
        frontier = next;
    }
    out
}

pub fn run(args: &Args, rep: &mut Report) {
    // the exhaustive grids under two taggings (own tag per operand, one tag for all); ladders and
    // random sequences under all four
    TAG_MODES.with(|m| m.set(0b0011));
    let grid: [u16; 5] = [0, 360, 570, 840, 1440];
    let mut pairs = Vec::new();
    for a in grid {
        for b in grid {
            pairs.push((a, b));
        }
    }
    let of = args.of.max(1);
    rep.exhaustive = true;

    // 1. every from_ranges call with <= 3 ranges over the grid (all 25 end-point pairs)
    let sets3 = range_sets(&pairs, 3);
    for (i, rs) in sets3.iter().enumerate() {
        if (i as u64) % of != args.worker {
            continue;
        }
        for k in KINDS {
            run_case(rep, &[(rs.clone(), k)]);
            rep.count("from_ranges_enumerated");
            if rs.iter().filter(|(s, e)| s < e).count() >= 2 {
                rep.count("distinct_enumerated");
            }
        }
        if rep.full() {
            return;
        }
    }
    // 2. every a.addition(b), a and b from <= 2 ranges, 3x3 kinds
    let sets2 = range_sets(&pairs, 2);
    for (i, ra) in sets2.iter().enumerate() {
        if (i as u64) % of != args.worker {
            continue;
        }
        for rb in &sets2 {
            for ka in KINDS {
                for kb in KINDS {
                    run_case(rep, &[(ra.clone(), ka), (rb.clone(), kb)]);
                    rep.count("additions_enumerated");
                    if ra.iter().any(|(s, e)| s < e) && rb.iter().any(|(s, e)| s < e) {
                        rep.count("distinct_enumerated");
                    }
                }
            }
        }
        if rep.full() {
            return;
        }
    }
    // 3. thorough: three-operand additions over the 10 proper ranges, one range each, all kinds,
    //    plus two ranges in the middle operand
    if args.thorough() {
        let proper: Vec<(u16, u16)> = pairs.iter().copied().filter(|(s, e)| s < e).collect();
        let mut idx = 0u64;
        for a in &proper {
            for b1 in &proper {
                for b2 in &proper {
                    for c in &proper {
                        idx += 1;
                        if idx % of != args.worker {
                            continue;
                        }
                        for ka in KINDS {
                            for kb in KINDS {
                                for kc in KINDS {
                                    run_case(rep, &[(vec![*a], ka), (vec![*b1, *b2], kb), (vec![*c], kc)]);
                                    rep.count("three_operand_enumerated");
                                    rep.count("distinct_enumerated");
                                }
                            }
                        }
                    }
                }
                if rep.full() {
                    return;
                }
            }
        }
    }
    rep.sample(|| ops_json(&[(vec![(360, 840), (360, 570)], RuleKind::Open)]));
    rep.sample(|| ops_json(&[(vec![(0, 1440)], RuleKind::Open), (vec![(570, 840), (360, 570)], RuleKind::Closed)]));

    TAG_MODES.with(|m| m.set(0b1111));
    // 3b. size ladder: K = 1..64, 96, 128, 200, 360, 720 ranges in one from_ranges call (disjoint,
    //     touching, staggered overlaps in shuffled order) and K successive additions (nested, alternating
    //     kinds; many-range operand then a whole-day operand and the reverse)
    {
        let mut ks: Vec<usize> = (1..=64).collect();
        ks.extend([96, 128, 200, 360, 720]);
        let mut idx = 0u64;
        for k in ks {
            let w = (1440 / (2 * k)).max(1) as u16;
            let kk = k as u16;
            let disjoint: Vec<(u16, u16)> = (0..kk).map(|i| (i * 2 * w, i * 2 * w + w)).filter(|r| r.1 <= 1440).collect();
            let touching: Vec<(u16, u16)> = (0..kk).map(|i| (i * w, (i + 1) * w)).filter(|r| r.1 <= 1440).collect();
            let mut staggered: Vec<(u16, u16)> = (0..kk).map(|i| (i * w, (i * w + 3 * w).min(1440))).filter(|r| r.0 < 1440).collect();
            let mut r = Rng::new(0x51e, 0, k as u64);
            r.shuffle(&mut staggered);
            let nested: Vec<Op> = (0..kk.min(719)).map(|i| (vec![(i, 1440 - i)], KINDS[i as usize % 3])).collect();
            let pairs: Vec<Op> = (0..kk.min(360)).map(|i| (vec![(i * 2, i * 2 + 1), (1439 - i * 2, 1440 - i * 2)], KINDS[(i as usize + 1) % 3])).collect();
            let cases: Vec<Vec<Op>> = vec![
                vec![(disjoint.clone(), RuleKind::Open)],
                vec![(touching.clone(), RuleKind::Unknown)],
                vec![(staggered.clone(), RuleKind::Open)],
                vec![(disjoint.clone(), RuleKind::Open), (vec![(0, 1440)], RuleKind::Closed)],
                vec![(vec![(0, 1440)], RuleKind::Unknown), (disjoint.clone(), RuleKind::Open), (staggered.clone(), RuleKind::Closed)],
                vec![(disjoint.clone(), RuleKind::Open), (touching.clone(), RuleKind::Open)],
                nested,
                pairs,
            ];
            for ops in cases {
                idx += 1;
                if (idx - 1) % args.of.max(1) != args.worker {
                    continue;
                }
                rep.count("size_ladder_sequences");
                rep.max("size_ladder_max_ranges", k as u64);
                run_case(rep, &ops);
                if rep.full() {
                    return;
                }
            }
        }
    }

    // 4. random: <= 8 operations, <= 6 ranges each, minute-granular
    let n = args.cases(400_000, 6_000_000);
    for k in 0..n {
        let mut r = Rng::new(args.seed, args.worker, k);
        let nops = 1 + r.below(8) as usize;
        let mut pool: Vec<u16> = (0..(2 + r.below(6))).map(|_| if r.chance(30) { *r.pick(&[0u16, 1, 719, 720, 1439, 1440]) } else { r.below(1441) as u16 }).collect();
        pool.push(0);
        pool.push(1440);
        let ops: Vec<Op> = (0..nops)
            .map(|_| {
                let nr = r.below(7) as usize;
                let rs = (0..nr)
                    .map(|_| {
                        if r.chance(70) {
                            (*r.pick(&pool), *r.pick(&pool))
                        } else {
                            let a = r.below(1441) as u16;
                            let b = r.below(1441) as u16;
                            (a.min(b), a.max(b))
                        }
                    })
                    .collect();
                (rs, *r.pick(&KINDS))
            })
            .collect();
        // a third of the sequences repeat ranges of earlier operands exactly (same bounds, another kind)
        let mut ops = ops;
        if r.chance(33) {
            for i in 1..ops.len() {
                if r.chance(40) {
                    let j = r.below(i as u64) as usize;
                    ops[i].0 = if r.chance(50) { ops[j].0.clone() } else { ops[j].0.iter().rev().take(1).cloned().collect() };
                }
            }
        }
        rep.count("random_sequences");
        rep.nontrivial(crate::rng::hash64(&format!("{ops:?}")));
        rep.begin(&format!("{ops:?}"));
        run_case(rep, &ops);
        if k < 2 {
            rep.sample(|| ops_json(&ops));
        }
        if rep.full() {
            return;
        }
    }

    // 5. the schedule! macro on generated invocations
    let n = args.cases(2_000, 50_000);
    for k in 0..n {
        let mut r = Rng::new(args.seed ^ 0x5c4ed, args.worker, k);
        let mut ts: Vec<u16> = (0..6).map(|_| r.below(1441) as u16).collect();
        ts.sort();
        ts.dedup();
        while ts.len() < 6 {
            let x = r.below(1441) as u16;
            if !ts.contains(&x) {
                ts.push(x);
                ts.sort();
            }
        }
        let ks: Vec<RuleKind> = (0..5).map(|_| *r.pick(&KINDS)).collect();
        let hm = |t: u16| ((t / 60) as u8, (t % 60) as u8);
        let (t0, t1, t2, t3, t4, t5) = (hm(ts[0]), hm(ts[1]), hm(ts[2]), hm(ts[3]), hm(ts[4]), hm(ts[5]));
        let res = guarded(|| {
            let shape = k % 3;
            let (sched, ops): (Schedule, Vec<Op>) = match shape {
                0 => (
                    opening_hours::schedule! { t0.0,t0.1 => ks[0] => t1.0,t1.1 },
                    vec![(vec![(ts[0], ts[1])], ks[0])],
                ),
                1 => (
                    opening_hours::schedule! {
                        t0.0,t0.1 => ks[0] => t1.0,t1.1 => ks[1], "b" => t2.0,t2.1;
                        t3.0,t3.1 => ks[2], "c", "a" => t4.0,t4.1;
                    },
                    vec![(vec![(ts[0], ts[1])], ks[0]), (vec![(ts[1], ts[2])], ks[1]), (vec![(ts[3], ts[4])], ks[2])],
                ),
                _ => (
                    opening_hours::schedule! {
                        t2.0,t2.1 => ks[0] => t5.0,t5.1;
                        t0.0,t0.1 => ks[1] => t3.0,t3.1 => ks[2] => t4.0,t4.1
                    },
                    vec![(vec![(ts[2], ts[5])], ks[0]), (vec![(ts[0], ts[3])], ks[1]), (vec![(ts[3], ts[4])], ks[2])],
                ),
            };
            let mut model = vec![None; 1440];
            for (rs, k) in &ops {
                paint_ranges(&mut model, rs, *k);
            }
            check_structure(&sched)?;
            if let Some(d) = first_diff(&paint_live(&sched), &model) {
                return Err(format!("schedule! result differs from painted model at {d}"));
            }
            check_iteration(&sched).map(|_| ())
        });
        rep.evaluations += 1;
        rep.count("macro_invocations");
        match res {
            Ok(Ok(())) => {}
            Ok(Err(msg)) => rep.violation("schedule_macro", msg, json!({"times": ts, "kinds": ks.iter().map(|k| kind_str(*k)).collect::<Vec<_>>(), "shape": k % 3}), None),
            Err(p) => rep.violation("panic", format!("schedule! panicked: {p}"), json!({"times": ts}), None),
        }
    }
    rep.require("from_ranges_enumerated", 1000);
    rep.require("additions_enumerated", 100_000);
    rep.require("random_sequences", 100);
    rep.require("macro_invocations", 10);
}

pub fn parse_ops(case: &Value) -> Vec<Op> {
    case["ops"]
        .as_array()
        .map(|ops| {
            ops.iter()
                .map(|o| {
                    let k = match o["kind"].as_str().unwrap_or("open") {
                        "closed" => RuleKind::Closed,
                        "unknown" => RuleKind::Unknown,
                        _ => RuleKind::Open,
                    };
                    let rs = o["ranges"].as_array().map(|a| a.iter().map(|p| (p[0].as_u64().unwrap_or(0) as u16, p[1].as_u64().unwrap_or(0) as u16)).collect()).unwrap_or_default();
                    (rs, k)
                })
                .collect()
        })
        .unwrap_or_default()
}

pub fn replay(case: &Value, rep: &mut Report) {
    let ops = parse_ops(case);
    run_case(rep, &ops);
}

#[allow(dead_code)]
fn _unused(_: Range<u8>) {}
