//! C05 — Parser accepts the supported grammar and builds the denoted expression.

use super::common::*;
use crate::gen::expr::{self, GenCfg};
use crate::out::{guarded, Args, Report};
use crate::render::{self, Variants};
use crate::rng::Rng;
use crate::shrink;
use opening_hours_syntax::rules::OpeningHoursExpression;
use opening_hours_syntax::Error;
use serde_json::{json, Value};

const KNOBS: [&str; 38] = [
    "nth_redundant_entries", "nth_entries_reordered",
    "single_digit_hour", "event_zero_offset_explicit", "space_before_dash", "space_around_slash", "repeat_as_minutes",
    "open_end_explicit_24", "spaces_around_time_dash", "day_plural_on_one", "days_singular", "offset_leading_zero",
    "year_plus", "week_single_digit", "year_easter_no_space", "year_date_no_space", "month_day_no_space",
    "day_leading_zero", "month_range_explicit", "single_date_as_range", "date_plus", "spaces_around_date_dash",
    "date_to_daynum", "weekday_range_explicit", "nth_positive_range", "constant_rule_spelling", "comment_as_prefix",
    "prefix_second_comment", "separator_before_week", "week_no_space", "separator_after_wide", "explicit_open",
    "off_for_closed", "no_space_before_comment", "normal_separator_spacing", "fallback_separator_spacing",
    "sel.date.alone", "sel.week.alone",
];

/// What goes wrong for this (ast, rendering), if anything.
fn check_positive(ast: &OpeningHoursExpression, text: &str) -> Option<String> {
    match lib_parse(text) {
        Err(e) => Some(format!("sentence of the supported grammar rejected: {e}")),
        Ok(parsed) => {
            if parsed == *ast {
                None
            } else {
                // locate the first differing rule / field for the message
                let mut what = String::from("parsed expression differs from the denoted one");
                if parsed.rules.len() != ast.rules.len() {
                    what += &format!(": {} rules instead of {}", parsed.rules.len(), ast.rules.len());
                } else {
                    for (i, (p, a)) in parsed.rules.iter().zip(&ast.rules).enumerate() {
                        if p != a {
                            let field = if p.day_selector.year != a.day_selector.year {
                                format!("year selector {:?} vs {:?}", p.day_selector.year, a.day_selector.year)
                            } else if p.day_selector.monthday != a.day_selector.monthday {
                                format!("month/date selector {:?} vs {:?}", p.day_selector.monthday, a.day_selector.monthday)
                            } else if p.day_selector.week != a.day_selector.week {
                                format!("week selector {:?} vs {:?}", p.day_selector.week, a.day_selector.week)
                            } else if p.day_selector.weekday != a.day_selector.weekday {
                                format!("weekday selector {:?} vs {:?}", p.day_selector.weekday, a.day_selector.weekday)
                            } else if p.time_selector != a.time_selector {
                                format!("time selector {:?} vs {:?}", p.time_selector, a.time_selector)
                            } else if p.kind != a.kind {
                                format!("modifier {} vs {}", p.kind, a.kind)
                            } else if p.operator != a.operator {
                                format!("rule separator {:?} vs {:?}", p.operator, a.operator)
                            } else {
                                format!("comments {:?} vs {:?}", p.comments, a.comments)
                            };
                            what += &format!(": rule {i}: parsed {field} (denoted)");
                            break;
                        }
                    }
                }
                Some(what)
            }
        }
    }
}

fn positive(rep: &mut Report, ast: &OpeningHoursExpression, vseed: (u64, u64, u64)) {
    let mut v = Variants::random(Rng::new(vseed.0, vseed.1, vseed.2));
    let text = render::expr(&mut v, ast);
    for (knob, n) in v.used {
        rep.add(&format!("variant.{knob}"), n);
    }
    rep.evaluations += 1;
    rep.count("sentences_parsed");
    if let Some(msg) = check_positive(ast, &text) {
        // shrink the AST under the same variant stream
        let render_same = |e: &OpeningHoursExpression| render::expr(&mut Variants::random(Rng::new(vseed.0, vseed.1, vseed.2)), e);
        let small = shrink::shrink(ast, &|_| true, &mut |c| check_positive(c, &render_same(c)).is_some(), 400);
        let text2 = render_same(&small);
        let msg2 = check_positive(&small, &text2).unwrap_or(msg);
        rep.violation("denotation", format!("{text2:?}: {msg2}"), json!({"expr": text2, "expect": "denotes", "denoted_ast": format!("{small:?}")}), None);
    }
}

fn corruptions() -> Vec<(String, &'static str)> {
    let mut v: Vec<(String, &'static str)> = Vec::new();
    let ctxs: [(&str, &str); 6] = [("", ""), ("Mo 10:00-12:00; ", ""), ("", "; Tu off"), ("", " off"), ("24/7; ", " unknown"), ("Sa, ", "")];
    let mut add = |body: String, why: &'static str| {
        for (p, s) in ctxs {
            v.push((format!("{p}{body}{s}"), why));
        }
    };
    for h in [25u32, 26, 29, 30, 47, 48, 49, 99] {
        add(format!("{h}:00-{}:30", (h + 1).min(99)), "start hour above 24");
        add(format!("Mo {h}:00-{h}:59"), "start hour above 24");
    }
    add("24:01-25:00".into(), "start time above 24:00");
    add("24:30+".into(), "start time above 24:00");
    for m in [60u32, 61, 75, 99] {
        add(format!("10:{m}-12:00"), "minute above 59");
        add(format!("10:00-12:{m}"), "minute above 59");
        add(format!("(sunrise+01:{m})-sunset"), "minute above 59");
    }
    for t in ["48:01", "48:30", "49:00", "50:00", "72:00", "99:59"] {
        add(format!("10:00-{t}"), "extended time above 48:00");
        add(format!("We 22:00-{t}"), "extended time above 48:00");
    }
    for d in ["0", "00", "32", "33", "40", "99"] {
        add(format!("Jan {d}"), "day 0 or above 31");
        add(format!("Jan 05-{d}"), "day 0 or above 31");
        add(format!("Dec {d}-Jan 02"), "day 0 or above 31");
        add(format!("2024 Feb {d}"), "day 0 or above 31");
    }
    for w in ["0", "00", "54", "55", "60", "99"] {
        add(format!("week {w}"), "week 0 or above 53");
        add(format!("week 02-{w}"), "week 0 or above 53");
        add(format!("week {w}-52 Mo"), "week 0 or above 53");
    }
    for n in ["0", "6", "7", "9", "-6", "-0", "1-6", "0-2", "1,6"] {
        add(format!("Mo[{n}]"), "nth outside 1..5");
        add(format!("Fr[{n}] 10:00-12:00"), "nth outside 1..5");
    }
    for y in ["1899", "1000", "0999", "999", "10000", "12000", "1899-1950", "1950-10000"] {
        add(format!("{y}"), "year outside 1900..9999");
        add(format!("{y} Mo"), "year outside 1900..9999");
    }
    for y in ["1899", "10000", "0000"] {
        add(format!("{y} Jan 05"), "year outside 1900..9999");
        add(format!("{y}Mar"), "year outside 1900..9999");
    }
    add("2020-2030/0".into(), "zero step");
    add("2020-2030/00".into(), "zero step");
    add("week 01-10/0".into(), "zero step");
    add("week 01-10/000".into(), "zero step");
    // numbers the fields of the denoted expression cannot hold: they can only be rejected
    for st in ["256", "257", "512", "1024", "65536", "4294967296", "18446744073709551616"] {
        add(format!("week 01-10/{st}"), "step beyond the field");
        add(format!("week 02-53/{st} Mo"), "step beyond the field");
    }
    for st in ["65536", "65537", "131072", "4294967296", "18446744073709551616"] {
        add(format!("2020-2030/{st}"), "step beyond the field");
    }
    for off in ["18446744073709551616", "9223372036854775808", "99999999999999999999999"] {
        add(format!("Mo[1] +{off} days"), "offset beyond the field");
        add(format!("PH -{off} days"), "offset beyond the field");
        add(format!("Jan 05 +{off} days"), "offset beyond the field");
    }
    v.push(("".into(), "empty input"));
    for s in ["Mo \"abc", "\"abc", "Mo 10:00-12:00 \"a\"b\"", "\"", "Mo \"", "\"a\":\"b", "24/7 closed \"x"] {
        v.push((s.to_string(), "unbalanced quote"));
    }
    v
}

fn unsupported() -> Vec<(String, &'static str)> {
    let mut v = Vec::new();
    for s in ["10:00", "Mo 10:00", "sunrise", "Mo 10:00,12:00", "Jan 05 08:30", "Mo 10:00-12:00,14:00", "(sunset-01:00)", "24/7; Tu 12:00 off"] {
        v.push((s.to_string(), "point in time"));
    }
    for s in ["easter-05", "easter -2 days-10", "2024 easter-20", "easter - 5", "Mo-Fr; easter+Su-3"] {
        v.push((s.to_string(), "Easter followed by a bare day number"));
    }
    v
}

fn negative(rep: &mut Report, text: &str, why: &str) {
    rep.evaluations += 1;
    rep.count("corruptions_parsed");
    rep.count(&format!("corruption.{}", why.replace(' ', "_")));
    match guarded(|| opening_hours_syntax::parse(text)) {
        Err(p) => rep.violation("panic", format!("{text:?} ({why}): parse panicked: {p}"), json!({"expr": text, "expect": "rejects", "why": why}), None),
        Ok(Ok(e)) => rep.violation("accepted_invalid", format!("{text:?} ({why}) is accepted, as {:?}", e.to_string()), json!({"expr": text, "expect": "rejects", "why": why}), None),
        Ok(Err(_)) => {}
    }
}

fn check_unsupported(rep: &mut Report, text: &str, why: &str) {
    rep.evaluations += 1;
    rep.count("unsupported_parsed");
    match guarded(|| opening_hours_syntax::parse(text)) {
        Err(p) => rep.violation("panic", format!("{text:?} ({why}): parse panicked: {p}"), json!({"expr": text, "expect": "unsupported", "why": why}), None),
        Ok(Ok(e)) => rep.violation("accepted_unsupported", format!("{text:?} ({why}) is accepted, as {:?}", e.to_string()), json!({"expr": text, "expect": "unsupported", "why": why}), None),
        // The property only requires that these constructs are not accepted; which error class
        // reports them is recorded as an observation, not judged.
        Ok(Err(Error::Unsupported(_))) => rep.count("unsupported_reported_as.Unsupported"),
        Ok(Err(_)) => rep.count("unsupported_reported_as.other_error"),
    }
}

/// Exhaustive part: every value of every atomic field (common::atomic_asts), in the plain spelling
/// and in two random spellings.
fn atomic_sweep(args: &Args, rep: &mut Report) {
    let all = atomic_asts();
    let of = args.of.max(1) as usize;
    for (i, ast) in all.iter().enumerate() {
        if i % of != args.worker as usize {
            continue;
        }
        rep.count("atomic_values_enumerated");
        rep.evaluations += 1;
        let text = render::plain(ast);
        if let Some(msg) = check_positive(ast, &text) {
            rep.violation("denotation", format!("{text:?}: {msg} (exhaustive sweep of atomic field values)"), json!({"expr": text, "expect": "denotes", "denoted_ast": format!("{ast:?}")}), None);
        }
        for j in 0..2 {
            positive(rep, ast, (args.seed ^ 0xa70, j, i as u64));
        }
        if rep.full() {
            return;
        }
    }
}



/// Comment text is free text: every character but the double quote comes back exactly as written.
/// One sentence per Unicode scalar value of the Basic Multilingual Plane (and samples beyond it),
/// with the character inside the comment - alone, between letters, and in the second of two
/// comments - so that any transliteration, trimming or normalisation of look-alike characters
/// (typographic dashes, no-break spaces, full-width forms, curly quotes, combining marks ...) on
/// the way in shows up as a difference between the written and the parsed comment.
fn comment_characters(args: &Args, rep: &mut Report) {
    let of = args.of.max(1) as u32;
    let mut code = args.worker as u32;
    let limit: u32 = 0x1_0000;
    let astral: [u32; 12] = [0x1F600, 0x1F1EB, 0x10348, 0x1D7D8, 0x2F81A, 0xE0001, 0xE0030, 0xF0000, 0x10FFFD, 0x1F3FB, 0x1D173, 0x16FE4];
    let mut codes: Vec<u32> = Vec::new();
    while code < limit {
        codes.push(code);
        code += of;
    }
    if args.worker == 0 {
        codes.extend(astral);
    }
    for cp in codes {
        let Some(ch) = char::from_u32(cp) else { continue };
        if ch == '"' {
            continue;
        }
        for (k, comment) in [format!("{ch}"), format!("8{ch}10 only"), format!("a {ch} b")].into_iter().enumerate() {
            for text in [format!("Mo-Fr 08:00-12:00 \"{comment}\""), format!("Mo \"a\"; Tu 10:00-12:00 unknown \"{comment}\"")] {
                rep.evaluations += 1;
                match lib_parse(&text) {
                    Ok(ast) => {
                        let got: Vec<String> = ast.rules.last().map(|r| r.comments.iter().map(|c| c.to_string()).collect()).unwrap_or_default();
                        if got != vec![comment.clone()] {
                            rep.violation("comment_text", format!("{text:?} (comment holding U+{cp:04X}): parsed comments {got:?}, written {comment:?}"), json!({"expr": text, "comment": comment}), None);
                            if rep.full() {
                                return;
                            }
                        } else {
                            rep.count("comment_characters_checked");
                        }
                    }
                    Err(e) => {
                        // a character the grammar does not accept inside a comment: recorded, and
                        // it must then be rejected in every position
                        rep.count(&format!("comment_character_rejected.form{k}"));
                    }
                }
            }
        }
    }
}

pub fn run(args: &Args, rep: &mut Report) {
    comment_characters(args, rep);
    if rep.full() {
        return;
    }
    atomic_sweep(args, rep);
    if rep.full() {
        return;
    }
    let n = args.cases(1_200_000, 12_000_000);
    for k in 0..n {
        let mut cfg = GenCfg::standard(args.thorough()).rotated(k);
        // isolated single-selector rules for a third of the cases, several spellings each
        let single = k % 3 == 0;
        if single {
            cfg.focus_pct = 100;
            cfg.max_rules = 1;
        }
        let mut r = Rng::new(args.seed, args.worker, k);
        let ast = expr::gen_expr(&mut r, &cfg);
        coverage_of(&ast, rep);
        rep.begin(&render::plain(&ast));
        if expr::has_selector(&ast) {
            rep.nontrivial(crate::rng::hash64(&format!("{ast:?}")));
        }
        let spellings = if single { 6 } else { 2 };
        for j in 0..spellings {
            positive(rep, &ast, (args.seed ^ 0xc05, args.worker * 1000 + j, k));
        }
        // the plain spelling as well
        rep.evaluations += 1;
        let text = render::plain(&ast);
        if let Some(msg) = check_positive(&ast, &text) {
            let small = shrink::shrink(&ast, &|_| true, &mut |c| check_positive(c, &render::plain(c)).is_some(), 400);
            let t2 = render::plain(&small);
            let msg2 = check_positive(&small, &t2).unwrap_or(msg);
            rep.violation("denotation", format!("{t2:?}: {msg2}"), json!({"expr": t2, "expect": "denotes", "denoted_ast": format!("{small:?}")}), None);
        }
        if k < 3 {
            rep.sample(|| json!({"rendered": text, "denoted_ast": format!("{ast:?}")}));
        }
        if rep.full() {
            return;
        }
    }
    // negative and unsupported cases: fixed tables (every worker takes a slice)
    for (i, (text, why)) in corruptions().iter().enumerate() {
        if (i as u64) % args.of.max(1) == args.worker {
            negative(rep, text, why);
            rep.count("distinct_enumerated");
        }
    }
    for (i, (text, why)) in unsupported().iter().enumerate() {
        if (i as u64) % args.of.max(1) == args.worker {
            check_unsupported(rep, text, why);
        }
    }
    rep.sample(|| json!({"corruption": "Mo 10:00-12:60", "expected": "rejected"}));
    for k in KNOBS {
        let key = if k.starts_with("sel.") { k.to_string() } else { format!("variant.{k}") };
        rep.require(&key, 1);
    }
    for s in expr::SEL_KINDS {
        rep.require(&format!("sel.{}.alone", expr::sel_name(s)), 10);
    }
    rep.require("corruptions_parsed", 100);
}

pub fn replay(case: &Value, rep: &mut Report) {
    let text = case_expr(case);
    if let Some(comment) = case["comment"].as_str() {
        rep.evaluations += 1;
        match lib_parse(&text) {
            Ok(ast) => {
                let got: Vec<String> = ast.rules.last().map(|r| r.comments.iter().map(|c| c.to_string()).collect()).unwrap_or_default();
                if got != vec![comment.to_string()] {
                    rep.violation("comment_text", format!("{text:?}: parsed comments {got:?}, written {comment:?}"), case.clone(), None);
                }
            }
            Err(e) => rep.violation("comment_text", format!("{text:?}: {e}"), case.clone(), None),
        }
        return;
    }
    match case["expect"].as_str().unwrap_or("") {
        "rejects" => negative(rep, &text, "replay"),
        "unsupported" => check_unsupported(rep, &text, "replay"),
        _ => {
            // a denotation case: the witness string must parse; equality with the recorded AST is
            // compared through Debug formatting
            rep.evaluations += 1;
            match lib_parse(&text) {
                Err(e) => rep.violation("denotation", format!("{text:?}: {e}"), case.clone(), None),
                Ok(p) => {
                    if let Some(d) = case["denoted_ast"].as_str() {
                        if format!("{p:?}") != d {
                            rep.violation("denotation", format!("{text:?}: parsed expression differs from the denoted one"), case.clone(), None);
                        }
                    }
                }
            }
        }
    }
}
