//! C03 — state and next_change are mutually consistent.

use super::c02::build;
use super::common::*;
use crate::gen::ctx::HolSpec;
use crate::gen::dates;
use crate::gen::expr::GenCfg;
use crate::known::{self, Classified};
use crate::out::{guarded, Args, Report};
use crate::render;
use crate::rng::Rng;
use crate::stream::{self, Oh, PointwiseStats};
use chrono::{Duration, NaiveDateTime};
use opening_hours::RuleKind;
use opening_hours_syntax::rules::OpeningHoursExpression;
use serde_json::{json, Value};

pub struct Outcome {
    pub budget_exhausted: bool,
    pub far_claim: bool,
    pub open_ended_far_call: bool,
    pub changed: bool,
}

/// All C03 checks at one instant. `allow_far_call`: may call the unbounded next_change even when
/// the pointwise pre-scan found no change before the horizon (costly: day-by-day to 9999).
pub fn check_instant(oh: &Oh, ast: Option<&OpeningHoursExpression>, t: NaiveDateTime, horizon_days: i64, allow_far_call: bool, r: &mut Rng, st: &mut PointwiseStats) -> Result<Outcome, String> {
    check_instant_budget(oh, ast, t, horizon_days, if allow_far_call { 40_000 } else { 0 }, r, st)
}

/// `far_steps`: day-step budget of the unbounded call (0: do not make it when the pre-scan found
/// no change; 4_000_000 is enough to walk from 1900 to 9999).
pub fn check_instant_budget(oh: &Oh, ast: Option<&OpeningHoursExpression>, t: NaiveDateTime, horizon_days: i64, far_steps: u64, r: &mut Rng, st: &mut PointwiseStats) -> Result<Outcome, String> {
    let allow_far_call = far_steps > 0;
    let g = |what: &str, f: &mut dyn FnMut() -> Result<(), String>| -> Result<(), String> {
        match guarded(|| f()) {
            Ok(x) => x,
            Err(p) => Err(format!("{what} panicked: {p}")),
        }
    };
    let mut out = Outcome { budget_exhausted: false, far_claim: false, open_ended_far_call: false, changed: false };
    let mut state = RuleKind::Closed;
    g("state", &mut || {
        state = oh.state(t);
        let pw = stream::kind_at(oh, t);
        if state != pw {
            return Err(format!("state({t}) = {state} but the schedule of that day gives {pw}"));
        }
        let (o, c, u) = (oh.is_open(t), oh.is_closed(t), oh.is_unknown(t));
        if (o, c, u) != (state == RuleKind::Open, state == RuleKind::Closed, state == RuleKind::Unknown) {
            return Err(format!("at {t}: state = {state} but is_open/is_closed/is_unknown = {o}/{c}/{u}"));
        }
        Ok(())
    })?;
    let end = stream::date_end();
    if t >= end {
        // nothing can change any more
        return g("next_change", &mut || match oh.next_change(t) {
            None => Ok(()),
            Some(u) => Err(format!("next_change({t}) = {u} at or beyond 10000-01-01")),
        })
        .map(|_| out);
    }
    // before 1900 everything is closed until 1900-01-01: scan from there
    let scan_from = t.max(stream::date_start() - Duration::minutes(1));
    let horizon = (scan_from + Duration::days(horizon_days)).min(end);
    let mut expected: Option<NaiveDateTime> = None;
    g("schedule_at", &mut || {
        expected = if t < stream::date_start() {
            // first instant from 1900-01-01 00:00 on that is not closed
            if stream::kind_at(oh, stream::date_start()) != RuleKind::Closed {
                Some(stream::date_start())
            } else {
                stream::next_change_pointwise(oh, stream::date_start(), horizon)
            }
        } else {
            stream::next_change_pointwise(oh, t, horizon)
        };
        Ok(())
    })?;
    let mut bounded_only = expected.is_none() && horizon < end && !allow_far_call;
    let mut got: Option<NaiveDateTime> = None;
    let mut stream_skips = Vec::new();
    if !bounded_only {
        // The unbounded call may legitimately walk day by day to 9999 (millions of steps) when the
        // expression never changes but is not trivially constant: a step budget (hook H1) keeps
        // the cost down; when it runs out the claim is checked through a bounded window instead.
        let far = expected.is_none() && horizon < end;
        if far {
            opening_hours::verif_hooks::reset_ticks();
            opening_hours::verif_hooks::arm_budget(opening_hours::verif_hooks::Site::DayStep, far_steps);
        }
        opening_hours::verif_hooks::record_skips(true);
        let res = guarded(|| oh.next_change(t));
        stream_skips = opening_hours::verif_hooks::take_skips();
        opening_hours::verif_hooks::record_skips(false);
        opening_hours::verif_hooks::disarm_budgets();
        match res {
            Ok(x) => got = x,
            Err(p) if p.starts_with("step budget exceeded") => {
                out.budget_exhausted = true;
                bounded_only = true;
            }
            Err(p) => return Err(format!("next_change({t}) panicked: {p}")),
        }
    }
    if bounded_only {
        // claim checked through a window ending at the horizon
        g("iter_range", &mut || {
            let first = oh.iter_range(t, horizon).next();
            match first {
                Some(iv) if iv.range.end == horizon && iv.range.start == t => Ok(()),
                Some(iv) => Err(format!("no pointwise change between {t} and {horizon}, but the first interval of iter_range is [{}, {})", iv.range.start, iv.range.end)),
                None => Err(format!("iter_range({t}, {horizon}) is empty")),
            }
        })?;
        return Ok(out);
    }
    if expected.is_none() && horizon < end {
        out.open_ended_far_call = true;
    }
    match (expected, got) {
        (Some(p), Some(u)) => {
            out.changed = true;
            if u <= t {
                return Err(format!("next_change({t}) = {u} is not after the query instant"));
            }
            if u != p {
                let rel = if u < p { "earlier" } else { "later" };
                return Err(format!("next_change({t}) = {u}, {rel} than the first pointwise change at {p} (state at {t}: {state})"));
            }
        }
        (Some(p), None) => return Err(format!("next_change({t}) = None but the state changes at {p} (from {state})")),
        (None, Some(u)) => {
            if u <= t {
                return Err(format!("next_change({t}) = {u} is not after the query instant"));
            }
            if u >= end {
                return Err(format!("next_change({t}) = {u} at or beyond 10000-01-01"));
            }
            if u < horizon {
                return Err(format!("next_change({t}) = {u} but the daily schedules show no change before {horizon}"));
            }
            // a far claim: check it on the skipped days and candidate days (sampled)
            out.far_claim = true;
            let k_u = guarded(|| stream::kind_at(oh, u)).map_err(|p| format!("schedule_at panicked: {p}"))?;
            if k_u == state && t >= stream::date_start() {
                return Err(format!("next_change({t}) = {u} but the state at {u} is still {state}"));
            }
            let s = stream::Stream { intervals: vec![stream::Interval { start: t.max(stream::date_start()), end: u, kind: state, comments: vec![] }], skips: stream_skips.clone(), complete: true, day_steps: 0, schedule_evals: 0 };
            guarded(|| stream::check_pointwise(oh, ast, &s, r, 400, st)).map_err(|p| format!("schedule_at panicked: {p}"))?.map_err(|e| format!("next_change({t}) = {u} skips a change: {e}"))?;
        }
        (None, None) => {
            if horizon < end {
                out.far_claim = true;
                let s = stream::Stream { intervals: vec![stream::Interval { start: t.max(stream::date_start()), end, kind: state, comments: vec![] }], skips: stream_skips.clone(), complete: true, day_steps: 0, schedule_evals: 0 };
                guarded(|| stream::check_pointwise(oh, ast, &s, r, 400, st)).map_err(|p| format!("schedule_at panicked: {p}"))?.map_err(|e| format!("next_change({t}) = None skips a change: {e}"))?;
            }
        }
    }
    // identical for all instants of the same interval
    if let (Some(u), true) = (got, t >= stream::date_start()) {
        let mut probes = vec![t + Duration::seconds(30), t + (u - t) / 2, u - Duration::minutes(1), u - Duration::seconds(1), u - Duration::nanoseconds(1)];
        probes.retain(|p| *p > t && *p < u);
        if u - t > Duration::days(800) {
            probes.truncate(2); // each probe walks the same long way
        }
        for p in probes {
            let mut other = None;
            g("next_change", &mut || {
                other = oh.next_change(p);
                Ok(())
            })?;
            if other != Some(u) {
                return Err(format!("next_change({t}) = {u} but next_change({p}), an instant of the same interval, = {other:?}"));
            }
            let sp = guarded(|| oh.state(p)).map_err(|e| format!("state panicked: {e}"))?;
            if sp != state {
                return Err(format!("state({p}) = {sp} inside the interval [{t}, {u}) of state {state}"));
            }
        }
        // and the state at u differs
        let su = guarded(|| oh.state(u)).map_err(|e| format!("state panicked: {e}"))?;
        if su == state {
            return Err(format!("next_change({t}) = {u} but state({u}) = state({t}) = {state}"));
        }
    }
    Ok(out)
}

pub fn gen_instant(r: &mut Rng, ast: &OpeningHoursExpression) -> NaiveDateTime {
    let ys = dates::years_of(ast);
    let minutes = dates::interesting_minutes(ast);
    let day = if r.chance(45) {
        let empty = compact_calendar::CompactCalendar::default();
        let days = dates::interesting_days(ast, &empty, &empty, r, 40);
        if days.is_empty() { dates::random_day(r, &ys) } else { *r.pick(&days) }
    } else {
        dates::random_day(r, &ys)
    };
    day.and_time(dates::random_time(r, &minutes, true))
}

fn report_failure(args: &Args, rep: &mut Report, ast: &OpeningHoursExpression, hol: &HolSpec, t: NaiveDateTime, horizon: i64, msg: &str) {
    let fails = |c: &OpeningHoursExpression| -> Option<String> {
        let oh = build(&render::plain(c), hol)?;
        let mut r = Rng::new(5, 0, 0);
        let mut st = PointwiseStats::default();
        check_instant(&oh, Some(c), t, horizon, true, &mut r, &mut st).err()
    };
    let classified = known::classify(&args.known, ast, &|c| denotable(c), &mut |c| fails(c).is_some(), 300);
    let (small, known) = match classified {
        Classified::Unexplained(s) => (s, None),
        Classified::Explained(s, t) => (s, Some(t)),
    };
    let text = render::plain(&small);
    let what = fails(&small).unwrap_or_else(|| msg.to_string());
    rep.violation("state_next_change", format!("{text:?} [{}]: {what}", hol.to_string()), json!({"expr": text, "holidays": hol.to_string(), "instant": t.to_string(), "horizon_days": horizon}), known);
}

/// Exact next_change grid: for one-rule expressions taking every value of one selector parameter,
/// next_change from sampled instants (start, last minute, inside of a run) equals the start of the
/// next run obtained by evaluating EVERY day of a long window; None exactly in the last run before
/// 10000-01-01.
fn exact_grid(args: &Args, rep: &mut Report) {
    use chrono::NaiveDate;
    let exprs = stream::grid_day_selectors(args.thorough(), args.seed + 1);
    let mut st = stream::ExactStats { days_evaluated: 0, intervals_compared: 0, next_change_calls: 0 };
    let suffixes = ["", " 10:00-12:00", " 22:00-26:00 unknown"];
    let ymd = |y: i32, m: u32, d: u32| NaiveDate::from_ymd_opt(y, m, d).unwrap();
    let w = 1900 + 150 * ((args.seed + 7) % 53) as i32;
    let windows = if args.thorough() { vec![(ymd(1900, 1, 1), ymd(2400, 12, 31)), (ymd(9500, 1, 1), ymd(9999, 12, 31)), (ymd(w, 1, 1), ymd(w + 499, 12, 31))] } else { vec![(ymd(w, 1, 1), ymd(w + 149, 12, 31)), (ymd(9900, 1, 1), ymd(9999, 12, 31))] };
    let mut idx = 0u64;
    for (i, base) in exprs.iter().enumerate() {
        let vi = (i as u64 + args.seed) % 3;
        idx += 1;
        if (idx - 1) % args.of.max(1) != args.worker {
            continue;
        }
        let text = format!("{base}{}", suffixes[vi as usize]);
        let Some(oh) = build(&text, &HolSpec::None) else { continue };
        for (d0, d1) in &windows {
            rep.evaluations += 1;
            rep.begin(&format!("exact grid {text} | {d0} .. {d1}"));
            let mut r = Rng::new(args.seed, 0xe8ac7, idx);
            match stream::check_exact(&oh, *d0, *d1, &mut r, if args.thorough() { 400 } else { 120 }, &mut st) {
                Ok(()) => {
                    rep.count("exact_grid_windows_passed");
                    rep.nontrivial(crate::rng::hash64(&format!("exact|{text}|{d0}")));
                }
                Err(msg) => {
                    rep.violation("state_next_change_exact", format!("{text:?} [none]: {msg}"), json!({"expr": text, "holidays": "none", "exact_from": d0.to_string(), "exact_to": d1.to_string(), "seed": args.seed, "stream": idx, "rs": 0xe8ac7, "samples": if args.thorough() { 400 } else { 120 }}), None);
                    if rep.full() {
                        return;
                    }
                    break;
                }
            }
        }
    }
    // time-shape grid (pairs of boundary-valued spans under a few day selectors), 2024..2031
    let shapes = stream::grid_time_shapes(args.thorough(), args.seed + 1);
    let (d0, d1) = (ymd(2024, 1, 1), ymd(if args.thorough() { 2047 } else { 2031 }, 12, 31));
    for (i, text) in shapes.iter().enumerate() {
        if (i as u64) % args.of.max(1) != args.worker {
            continue;
        }
        let Some(oh) = build(text, &HolSpec::None) else { continue };
        rep.evaluations += 1;
        rep.begin(&format!("time-shape grid {text} | {d0} .. {d1}"));
        match stream::check_exact(&oh, d0, d1, &mut Rng::new(args.seed, 0x71e5, i as u64), 24, &mut st) {
            Ok(()) => {
                rep.count("time_shape_grid_windows_passed");
                rep.nontrivial(crate::rng::hash64(&format!("exact|{text}|{d0}")));
            }
            Err(msg) => {
                rep.violation("state_next_change_exact", format!("{text:?} [none]: {msg}"), json!({"expr": text, "holidays": "none", "exact_from": d0.to_string(), "exact_to": d1.to_string(), "seed": args.seed, "stream": i, "rs": 0x71e5, "samples": 24}), None);
                if rep.full() {
                    return;
                }
            }
        }
    }
    // located exact grid (event-based bounds crossing midnight on a selector's boundary day), 2022..2033
    let mut lidx = 0u64;
    for (lat, lon) in stream::LOCATED_GRID_SITES {
        for text in stream::located_grid_expressions(lat, lon) {
            lidx += 1;
            if (lidx - 1) % args.of.max(1) != args.worker {
                continue;
            }
            let Some(oh) = stream::build_located(&text, lat, lon) else { continue };
            rep.evaluations += 1;
            rep.begin(&format!("located grid {text} | ({lat}, {lon})"));
            match stream::check_exact_located(&oh, ymd(2022, 1, 1), ymd(2033, 12, 31), &mut Rng::new(args.seed, 0x10ca, lidx), 40, &mut st) {
                Ok(()) => rep.count("located_grid_windows_passed"),
                Err(msg) => {
                    rep.violation("state_next_change_exact_located", format!("{text:?} at ({lat}, {lon}) [UTC]: {msg}"), json!({"expr": text, "lat": lat, "lon": lon, "located_grid": true, "seed": args.seed, "stream": lidx}), None);
                    if rep.full() {
                        return;
                    }
                }
            }
        }
    }
    rep.add("exact_grid_days_evaluated", st.days_evaluated);
    rep.add("exact_grid_next_change_calls", st.next_change_calls);
}

pub fn run(args: &Args, rep: &mut Report) {
    if !args.extra.iter().any(|e| e == "nogrid") {
        exact_grid(args, rep);
        if rep.full() {
            return;
        }
    }
    let n = args.cases(50_000, 25_000);
    let horizon = if args.thorough() { 60 * 366 } else { 3 * 366 };
    let mut full_walks: i64 = if args.thorough() { 60 } else { 2 };
    let mut st = PointwiseStats::default();
    for k in 0..n {
        let mut cfg = GenCfg::standard(args.thorough()).rotated(k);
        cfg.long_intervals = k % 4 == 0;
        let case = gen_case(args, k, &cfg, rep);
        let mut r = case.rng.clone();
        let Some(oh) = build(&case.text, &case.hol) else {
            rep.count("skipped_parser_rejects");
            continue;
        };
        coverage_of(&case.ast, rep);
        for j in 0..3 {
            let t = gen_instant(&mut r, &case.ast);
            rep.evaluations += 1;
            rep.begin(&format!("{} | {} | {t}", case.text, case.hol.to_string()));
            let steps = if full_walks > 0 { 4_000_000 } else { 9_000 };
            match check_instant_budget(&oh, Some(&case.ast), t, horizon, steps, &mut r, &mut st) {
                Ok(o) => {
                    rep.count("instants_checked");
                    if o.far_claim {
                        rep.count("far_claims_sampled");
                    }
                    if o.budget_exhausted {
                        rep.count("far_calls_cut_by_step_budget");
                    }
                    if o.open_ended_far_call {
                        rep.count("open_ended_far_calls");
                        full_walks -= 1;
                    }
                    if o.changed {
                        rep.count("instants_with_change_within_horizon");
                        rep.nontrivial(crate::rng::hash64(&format!("{:?}|{}|{t}", case.ast, case.hol.to_string())));
                    }
                    if k < 2 && j == 0 {
                        rep.sample(|| json!({"expr": case.text, "holidays": case.hol.to_string(), "instant": t.to_string(), "state": oh.state(t).to_string(), "next_change": oh.next_change(t).map(|x| x.to_string())}));
                    }
                }
                Err(msg) => {
                    report_failure(args, rep, &case.ast, &case.hol, t, horizon, &msg);
                    break;
                }
            }
        }
        if rep.full() {
            break;
        }
    }
    for (i, text) in corpus().iter().enumerate() {
        if (i as u64) % args.of.max(1) != args.worker {
            continue;
        }
        let Ok(ast) = lib_parse(text) else { continue };
        let hol = if has_holiday_selector(&ast) { HolSpec::Country("FR".into()) } else { HolSpec::None };
        let Some(oh) = build(text, &hol) else { continue };
        let mut r = Rng::new(args.seed, 0xc0c0, i as u64);
        for _ in 0..6 {
            let t = gen_instant(&mut r, &ast);
            rep.evaluations += 1;
            match check_instant_budget(&oh, Some(&ast), t, horizon, 9_000, &mut r, &mut st) {
                Ok(_) => rep.count("corpus_instants_checked"),
                Err(msg) => {
                    rep.violation("state_next_change", format!("{text:?} [{}] (from the repository's sample/test sources): {msg}", hol.to_string()), json!({"expr": text, "holidays": hol.to_string(), "instant": t.to_string(), "horizon_days": horizon}), known::explained_by(&args.known, &ast));
                    break;
                }
            }
        }
    }
    rep.add("days_point_checked_for_far_claims", st.days_checked);
    rep.add("skipped_days_point_checked", st.skipped_days_checked);
    rep.require("instants_checked", 20_000);
    rep.require("instants_with_change_within_horizon", 10_000);
}

pub fn replay(args: &Args, case: &Value, rep: &mut Report) {
    let text = case_expr(case);
    let hol = case_hol(case);
    if case["located_grid"].as_bool() == Some(true) {
        rep.evaluations += 1;
        let (lat, lon) = (case["lat"].as_f64().unwrap_or(0.0), case["lon"].as_f64().unwrap_or(0.0));
        let ymd = |y: i32, m: u32, d: u32| chrono::NaiveDate::from_ymd_opt(y, m, d).unwrap();
        let mut st = stream::ExactStats { days_evaluated: 0, intervals_compared: 0, next_change_calls: 0 };
        match stream::build_located(&text, lat, lon) {
            None => rep.violation("witness_rejected", format!("{text:?} does not parse"), case.clone(), None),
            Some(oh) => {
                let mut r = Rng::new(case["seed"].as_u64().unwrap_or(5), 0x10ca, case["stream"].as_u64().unwrap_or(0));
                if let Err(msg) = stream::check_exact_located(&oh, ymd(2022, 1, 1), ymd(2033, 12, 31), &mut r, 40, &mut st) {
                    rep.violation("state_next_change_exact_located", format!("{text:?} at ({lat}, {lon}) [UTC]: {msg}"), case.clone(), None);
                }
            }
        }
        return;
    }
    if let (Some(d0), Some(d1)) = (case["exact_from"].as_str().and_then(|s| s.parse::<chrono::NaiveDate>().ok()), case["exact_to"].as_str().and_then(|s| s.parse::<chrono::NaiveDate>().ok())) {
        rep.evaluations += 1;
        let Some(oh) = build(&text, &hol) else {
            rep.violation("witness_rejected", format!("{text:?} does not parse"), case.clone(), None);
            return;
        };
        let mut st = stream::ExactStats { days_evaluated: 0, intervals_compared: 0, next_change_calls: 0 };
        let mut r = Rng::new(case["seed"].as_u64().unwrap_or(5), case["rs"].as_u64().unwrap_or(0xe8ac7), case["stream"].as_u64().unwrap_or(0));
        if let Err(msg) = stream::check_exact(&oh, d0, d1, &mut r, case["samples"].as_u64().unwrap_or(400) as usize, &mut st) {
            rep.violation("state_next_change_exact", format!("{text:?} [{}]: {msg}", hol.to_string()), case.clone(), None);
        }
        return;
    }
    let Some(t) = case["instant"].as_str().and_then(|s| NaiveDateTime::parse_from_str(s, "%Y-%m-%d %H:%M:%S%.f").ok()) else {
        rep.violation("bad_replay", "replay without instant".into(), case.clone(), None);
        return;
    };
    let horizon = case["horizon_days"].as_i64().unwrap_or(3 * 366);
    rep.evaluations += 1;
    let Some(oh) = build(&text, &hol) else {
        rep.violation("witness_rejected", format!("{text:?} does not parse"), case.clone(), None);
        return;
    };
    let ast = lib_parse(&text).ok();
    let mut r = Rng::new(5, 0, 0);
    let mut st = PointwiseStats::default();
    if let Err(msg) = check_instant(&oh, ast.as_ref(), t, horizon, true, &mut r, &mut st) {
        let known = ast.as_ref().and_then(|a| known::explained_by(&args.known, a));
        rep.violation("state_next_change", format!("{text:?} [{}]: {msg}", hol.to_string()), case.clone(), known);
    }
}
