//! C01 — Day schedules follow the documented rule semantics (reference-model monitor).

use super::common::*;
use crate::gen::ctx::HolSpec;
use crate::gen::dates;
use crate::gen::expr::{self, GenCfg};
use crate::known::{self, Classified};
use crate::model::{self, Abstain, Holidays};
use crate::out::{guarded, Args, Report};
use crate::render;
use crate::rng::Rng;
use chrono::{Datelike, Duration, NaiveDate};
use opening_hours::{Context, OpeningHours, RuleKind};
use opening_hours_syntax::rules::OpeningHoursExpression;
use serde_json::{json, Value};

pub struct Mismatch {
    pub day: NaiveDate,
    pub what: String,
}

/// Compare the library with the model on the given days. Ok(None) = agreed everywhere.
pub fn compare(ast: &OpeningHoursExpression, oh: &OpeningHours, hol_spec: &HolSpec, days: &[NaiveDate], probe_state: bool, stats: Option<&mut Report>) -> Result<Option<Mismatch>, Abstain> {
    let hol_ctx = hol_spec.build();
    let hol = Holidays { public: hol_ctx.get_public(), school: hol_ctx.get_school() };
    // abstention is per shape, not per day: probe the selectors on fixed leap / non-leap dates first
    if let Some(a) = model::abstention(ast, &hol) {
        return Err(a);
    }
    let minutes = dates::interesting_minutes(ast);
    let mut nonconstant = false;
    let mut first_kinds: Option<Vec<RuleKind>> = None;
    let mut spill_days = 0;
    for &d in days {
        let m = model::model_day(ast, d, &hol)?;
        let mk = m.kinds();
        if m.spill_conflict {
            spill_days += 1;
        }
        let got = guarded(|| {
            let sched = oh.schedule_at(d);
            super::c14::check_structure(&sched)?;
            Ok::<_, String>(model::impl_day(oh, d))
        });
        let ik = match got {
            Err(p) => return Ok(Some(Mismatch { day: d, what: format!("schedule_at({d}) panicked: {p}") })),
            Ok(Err(s)) => return Ok(Some(Mismatch { day: d, what: format!("schedule_at({d}) returned an ill-formed schedule: {s}") })),
            Ok(Ok(ik)) => ik,
        };
        if let Some(pos) = model::first_diff(&mk, &ik) {
            let upto = (pos..1440).find(|&i| mk[i] == ik[i]).unwrap_or(1440);
            return Ok(Some(Mismatch { day: d, what: format!("{d} ({:?}) {}-{}: documented semantics give {}, schedule_at gives {}", d.weekday(), model::hm(pos), model::hm(upto), mk[pos], ik[pos]) }));
        }
        if probe_state {
            for &mi in minutes.iter().take(6) {
                let t = dates::dt(d, mi);
                match guarded(|| oh.state(t)) {
                    Err(p) => return Ok(Some(Mismatch { day: d, what: format!("state({t}) panicked: {p}") })),
                    Ok(k) => {
                        if k != mk[mi as usize] {
                            return Ok(Some(Mismatch { day: d, what: format!("state({t}) = {k}, documented semantics give {}", mk[mi as usize]) }));
                        }
                    }
                }
            }
        }
        match &first_kinds {
            None => first_kinds = Some(mk.clone()),
            Some(f) => {
                if *f != mk || mk.iter().any(|k| *k != mk[0]) {
                    nonconstant = true;
                }
            }
        }
    }
    if let Some(rep) = stats {
        rep.add("days_compared", days.len() as u64);
        rep.add("spill_conflict_days", spill_days);
        if nonconstant {
            rep.count("cases_with_varying_schedule");
        }
    }
    Ok(None)
}

fn days_for(ast: &OpeningHoursExpression, hol: &HolSpec, r: &mut Rng, targeted: usize, random: usize, sweep: usize) -> Vec<NaiveDate> {
    let ctx = hol.build();
    let mut days = dates::interesting_days(ast, ctx.get_public(), ctx.get_school(), r, targeted);
    let ys = dates::years_of(ast);
    for _ in 0..random {
        days.push(dates::random_day(r, &ys));
    }
    if sweep > 0 {
        let start = dates::random_day(r, &ys);
        for k in 0..sweep as i64 {
            let d = start + Duration::days(k);
            if dates::in_range(d) {
                days.push(d);
            }
        }
    }
    days.sort();
    days.dedup();
    // spill-over from 1899-12-31 into 1900-01-01 is not settled by any source: not probed
    days.retain(|d| *d != dates::min_day());
    days
}

fn report_failure(args: &Args, rep: &mut Report, ast: &OpeningHoursExpression, hol: &HolSpec, mm: &Mismatch) {
    let fail_days = |c: &OpeningHoursExpression| -> Option<Mismatch> {
        let text = render::plain(c);
        let Ok(oh) = guarded(|| OpeningHours::parse(&text)) else { return None };
        let Ok(oh) = oh else { return None };
        let oh = oh.with_context(hol.context());
        let mut r = Rng::new(11, 0, 0);
        let mut days = days_for(c, hol, &mut r, 48, 8, 0);
        for k in -3..=3 {
            let d = mm.day + Duration::days(k);
            if dates::in_range(d) && d != dates::min_day() {
                days.push(d);
            }
        }
        match compare(c, &oh, hol, &days, true, None) {
            Ok(m) => m,
            Err(_) => None,
        }
    };
    let classified = known::classify(&args.known, ast, &|c| denotable(c), &mut |c| fail_days(c).is_some(), 600);
    let (small, known) = match classified {
        Classified::Unexplained(s) => (s, None),
        Classified::Explained(s, t) => (s, Some(t)),
    };
    let text = render::plain(&small);
    let what = fail_days(&small).map(|m| m.what).unwrap_or_else(|| mm.what.clone());
    let day = fail_days(&small).map(|m| m.day).unwrap_or(mm.day);
    rep.violation("schedule_differs_from_semantics", format!("{text:?} [{}]: {what}", hol.to_string()), json!({"expr": text, "holidays": hol.to_string(), "day": day.to_string()}), known);
}

/// Parameter x year grids: every value of a selector parameter, each in its own one-rule
/// expression, compared with the model on the days around its boundaries in every year covered by
/// EVERY year 1900..9999 (both tiers). A slip that needs one specific parameter value, or a calendar coincidence
/// between the parameter and the year, cannot hide from it.
fn grids(args: &Args, rep: &mut Report) {
    use chrono::Weekday;
    let thorough = args.thorough();
    let of = args.of.max(1);
    let years: Vec<i32> = (1900..=9999).collect();
    let few_years: Vec<i32> = (1900..=1905).chain(1995..=2005).chain(2095..=2105).chain(2396..=2404).chain(9990..=9999).collect();
    let months = ["Jan", "Feb", "Mar", "Apr", "May", "Jun", "Jul", "Aug", "Sep", "Oct", "Nov", "Dec"];
    let wds = ["Mo", "Tu", "We", "Th", "Fr", "Sa", "Su"];
    let wd_of = [Weekday::Mon, Weekday::Tue, Weekday::Wed, Weekday::Thu, Weekday::Fri, Weekday::Sat, Weekday::Sun];
    let mut idx = 0u64;
    let mut full = false;
    // (expression text, family, days)
    let mut one = |text: String, family: &str, mut days: Vec<NaiveDate>, rep: &mut Report| {
        idx += 1;
        if full || (idx - 1) % of != args.worker {
            return;
        }
        let Ok(ast) = lib_parse(&text) else {
            rep.count("grid_skipped_parser_rejects");
            return;
        };
        let Ok(Ok(oh)) = guarded(|| OpeningHours::parse(&text)) else { return };
        days.retain(|d| dates::in_range(*d) && *d != dates::min_day());
        days.sort();
        days.dedup();
        rep.evaluations += 1;
        rep.add("grid_days", days.len() as u64);
        rep.count(&format!("grid.{family}"));
        match compare(&ast, &oh, &HolSpec::None, &days, false, None) {
            Err(a) => rep.count(&format!("grid_abstained.{}", a.0.replace(' ', "_"))),
            Ok(None) => rep.count("grid_expressions_passed"),
            Ok(Some(mm)) => {
                report_failure(args, rep, &ast, &HolSpec::None, &mm);
                full = rep.full();
            }
        }
    };
    let around = |d: NaiveDate, before: i64, after: i64| -> Vec<NaiveDate> { (-before..=after).map(|k| d + Duration::days(k)).collect() };
    // 1. every ISO week number
    for n in 1..=53u32 {
        let mut days = Vec::new();
        for &y in &years {
            match NaiveDate::from_isoywd_opt(y, n, Weekday::Mon) {
                Some(mon) if mon.iso_week().week() == n => days.extend(around(mon, 1, 7)),
                _ => days.extend(around(dates::ymd(y, 12, 31), 4, 4)),
            }
        }
        one(format!("week {n:02}"), "week", days, rep);
    }
    // 2. every day of the year, alone
    for (mi, m) in months.iter().enumerate() {
        for d in 1..=model::days_in_month(2024, mi as u32 + 1) {
            let mut days = Vec::new();
            for &y in &years {
                match NaiveDate::from_ymd_opt(y, mi as u32 + 1, d) {
                    Some(x) => days.extend(around(x, 1, 1)),
                    None => days.extend(around(dates::ymd(y, 2, 28), 0, 1)),
                }
            }
            one(format!("{m} {d:02}"), "monthday", days, rep);
        }
    }
    // 3. every month alone (every year), every pair of months (fewer years)
    for (i, a) in months.iter().enumerate() {
        let mut days = Vec::new();
        for &y in &years {
            days.extend(around(dates::ymd(y, i as u32 + 1, 1), 1, 0));
            days.extend(around(dates::ymd(y, i as u32 + 1, model::days_in_month(y, i as u32 + 1)), 0, 1));
        }
        one(a.to_string(), "month", days, rep);
        for (j, b) in months.iter().enumerate() {
            if i == j {
                continue;
            }
            let mut days = Vec::new();
            for &y in &few_years {
                for m in [i, j] {
                    days.extend(around(dates::ymd(y, m as u32 + 1, 1), 1, 0));
                    days.extend(around(dates::ymd(y, m as u32 + 1, model::days_in_month(y, m as u32 + 1)), 0, 1));
                }
            }
            one(format!("{a}-{b}"), "month_pair", days, rep);
        }
    }
    // 4. every year: alone, open-ended, and as both ends of a stepped range
    for y in 1900..=9999i32 {
        let days = vec![dates::ymd(y, 1, 1), dates::ymd(y, 12, 31), dates::ymd(y, 7, 1 + (y as u32 % 28)), dates::ymd(y, 1, 1) - Duration::days(1), dates::ymd(y, 12, 31) + Duration::days(1)];
        one(format!("{y}"), "year", days.clone(), rep);
        {
            one(format!("{y}+"), "year_open", days.clone(), rep);
            if y >= 1903 {
                let mut d2 = days.clone();
                d2.extend([dates::ymd(y - 3, 1, 1), dates::ymd(y - 2, 6, 1), dates::ymd(y - 1, 12, 31), dates::ymd(y - 3, 1, 1) - Duration::days(1)]);
                one(format!("{}-{y}/3", y - 3), "year_step", d2, rep);
            }
        }
    }
    // 5. every nth weekday: the matching day, its weekday neighbours and the days next to it
    for (wi, wd) in wds.iter().enumerate() {
        for n in [1i32, 2, 3, 4, 5, -1, -2, -3, -4, -5] {
            let mut days = Vec::new();
            for &y in &years {
                for m in [2u32, 1 + (y as u32 % 12), 1 + ((y as u32 + 5) % 12)] {
                    let dim = model::days_in_month(y, m);
                    let hits: Vec<NaiveDate> = (1..=dim).map(|d| dates::ymd(y, m, d)).filter(|d| d.weekday() == wd_of[wi]).collect();
                    days.extend(hits.iter().copied());
                    let k = if n > 0 { n as usize - 1 } else { (hits.len() as i32 + n).max(0) as usize };
                    if let Some(h) = hits.get(k) {
                        days.extend(around(*h, 1, 1));
                    }
                }
            }
            one(format!("{wd}[{n}]"), "nth_weekday", days, rep);
        }
    }
    // 6. weekday offsets of dates
    for (wi, wd) in wds.iter().enumerate() {
        let _ = wi;
        for sign in ['+', '-'] {
            for (m, d) in [("Jan", 1u32), ("Feb", 28), ("Mar", 1), ("Jul", 14), ("Dec", 25), ("Dec", 31)] {
                let mi = months.iter().position(|x| *x == m).unwrap() as u32 + 1;
                let mut days = Vec::new();
                for &y in &years {
                    days.extend(around(dates::ymd(y, mi, d), 8, 8));
                }
                one(format!("{m} {d:02}{sign}{wd}"), "date_weekday_offset", days, rep);
            }
        }
    }
    // 7. day offsets of dates and of Easter
    for n in (-400..=400i64).filter(|n| *n != 0) {
        let unit = if n.abs() == 1 { "day" } else { "days" };
        let sign = if n < 0 { '-' } else { '+' };
        for (m, d) in [("Feb", 28u32), ("Dec", 31), ("Jan", 1), ("Mar", 1)] {
            let mi = months.iter().position(|x| *x == m).unwrap() as u32 + 1;
            let mut days = Vec::new();
            for &y in &few_years {
                days.extend(around(dates::ymd(y, mi, d) + Duration::days(n), 1, 1));
                days.push(dates::ymd(y, mi, d));
            }
            one(format!("{m} {d:02} {sign}{} {unit}", n.abs()), "date_day_offset", days, rep);
        }
        if n.abs() <= 60 {
            let mut days = Vec::new();
            for &y in &years {
                days.extend(around(model::easter(y) + Duration::days(n), 1, 1));
            }
            one(format!("easter {sign}{} {unit}", n.abs()), "easter_offset", days, rep);
        }
    }
    // 8. clock times: every start minute, every end minute up to 48:00, open ends, event offsets
    let two_days = vec![dates::ymd(2024, 3, 9), dates::ymd(2024, 3, 10), dates::ymd(2024, 3, 11)];
    let hm = |m: u32| format!("{:02}:{:02}", m / 60, m % 60);
    for s in 0..1440u32 {
        one(format!("{}-{}", hm(s), hm(s + 61)), "time_start", two_days.clone(), rep);
        one(format!("{}+", hm(s)), "time_open_end", two_days.clone(), rep);
    }
    for e in 1..=2880u32 {
        let s = if e <= 1440 { 0 } else { (e - 1440 + 30).min(1439) };
        one(format!("{}-{}", hm(s), hm(e)), "time_end", two_days.clone(), rep);
    }
    for ev in ["dawn", "sunrise", "sunset", "dusk"] {
        for off in -1440..=1440i32 {
            let t = if off == 0 { ev.to_string() } else { format!("({ev}{}{})", if off < 0 { '-' } else { '+' }, hm(off.unsigned_abs())) };
            let text = if off % 2 == 0 { format!("{t}-26:30") } else { format!("00:30-{t}") };
            one(text, "event_offset", two_days.clone(), rep);
        }
    }
    // 9. pairs of clock minutes: thorough = EVERY (start, length) with start in 00:00..23:59 and
    //    length 1..1439 minutes (2.07 million expressions); quick = 100 000 pairs on coprime strides
    if thorough {
        for s in 0..1440u32 {
            for len in 1..=1439u32 {
                one(format!("{}-{}", hm(s), hm(s + len)), "time_pair", vec![two_days[0], two_days[1]], rep);
            }
        }
    } else {
        let mut s = (args.seed % 1440) as u32;
        let mut len = 1 + (args.seed % 1439) as u32;
        for _ in 0..100_000u32 {
            one(format!("{}-{}", hm(s), hm(s + len)), "time_pair", vec![two_days[0], two_days[1]], rep);
            s = (s + 7) % 1440;
            len = 1 + (len + 11) % 1439;
        }
    }
    // 11. cross grids INSIDE one selector: special dates x special dates x start offset x end offset
    //     for date ranges; all week pairs x steps; special year pairs x steps; nth weekday x day offset.
    //     Evaluated on every day of a common year, a leap year, the years around them and a non-leap
    //     century year. The offset pairs rotate with the seed in the quick tier (1/8 per run).
    {
        let mut four_years: Vec<NaiveDate> = Vec::new();
        for (a, b) in [((2022, 12, 1), (2026, 1, 31)), ((2099, 11, 1), (2101, 2, 28))] {
            let mut d = dates::ymd(a.0, a.1, a.2);
            while d <= dates::ymd(b.0, b.1, b.2) {
                four_years.push(d);
                d = d.succ_opt().unwrap();
            }
        }
        let special = ["Jan 01", "Jan 31", "Feb 01", "Feb 28", "Feb 29", "Feb 30", "Feb 31", "Mar 01", "Apr 30", "Apr 31", "Jun 15", "Dec 01", "Dec 30", "Dec 31"];
        let offs: [i64; 23] = [0, 1, -1, 7, -7, 31, -31, 60, -60, 70, -70, 306, -306, 307, -307, 320, -320, 365, -365, 366, -366, 400, -400];
        let fmt_off = |o: i64| if o == 0 { String::new() } else { format!(" {}{} day{}", if o < 0 { '-' } else { '+' }, o.abs(), if o.abs() == 1 { "" } else { "s" }) };
        let mut pair = 0u64;
        for a in special {
            for b in special {
                for oa in offs {
                    for ob in offs {
                        pair += 1;
                        if !thorough && pair % 8 != args.seed % 8 {
                            continue;
                        }
                        one(format!("{a}{}-{b}{} 10:00-12:00", fmt_off(oa), fmt_off(ob)), "cross_date_range", four_years.clone(), rep);
                    }
                }
            }
        }
        // dated starts at the edges of the supported range x offsets crossing them x every form of end
        // (the start's year is part of the DATE, not a year selector): every day of the years around
        for y in [1900i32, 1901, 2024, 9998, 9999] {
            let mut days: Vec<NaiveDate> = Vec::new();
            let mut d = dates::ymd((y - 1).max(1900), 1, 1);
            while d <= dates::ymd((y + 2).min(9999), 12, 31) {
                days.push(d);
                d = d.succ_opt().unwrap();
            }
            for a in ["Jan 01", "Jan 03", "Feb 29", "Mar 01", "Dec 29", "Dec 31"] {
                for oa in [0i64, 1, -1, 2, -2, 5, -5, 366, -366] {
                    let start = format!("{y} {a}{}", fmt_off(oa));
                    let mut ends: Vec<String> = vec![String::new(), "+".to_string()];
                    for b in ["Jan 01", "Jan 10", "Feb 29", "Dec 31"] {
                        for ob in [0i64, -2, 2, -5, 5] {
                            ends.push(format!("-{b}{}", fmt_off(ob)));
                        }
                        for y2 in [y, y + 1] {
                            if y2 <= 9999 {
                                ends.push(format!("-{y2} {b}"));
                            }
                        }
                    }
                    for e in ends {
                        one(format!("{start}{e} 10:00-12:00"), "cross_dated_start", days.clone(), rep);
                    }
                }
            }
        }
        for a in 1..=53u32 {
            for b in 1..=53u32 {
                for step in [2u32, 3, 4, 5, 6, 13, 26, 53] {
                    pair += 1;
                    if !thorough && pair % 4 != args.seed % 4 {
                        continue;
                    }
                    one(format!("week {a:02}-{b:02}/{step}"), "cross_week_range", four_years.clone(), rep);
                }
            }
        }
        let ys: [i32; 9] = [1900, 1901, 2000, 2023, 2024, 2025, 2100, 9998, 9999];
        for a in ys {
            for b in ys {
                for step in [1u32, 2, 3, 4, 5, 25, 100, 400] {
                    if a == b && step == 1 {
                        continue;
                    }
                    let days: Vec<NaiveDate> = (1900..=9999i32).filter(|y| (y - a) % 7 == 0 || ys.contains(y) || (2020..=2030).contains(y) || (y - b).abs() <= 2).flat_map(|y| [dates::ymd(y, 1, 1), dates::ymd(y, 12, 31)]).collect();
                    one(format!("{a}-{b}{}", if step == 1 { String::new() } else { format!("/{step}") }), "cross_year_range", days, rep);
                }
            }
        }
        for wd in wds {
            for n in [1i32, 2, 3, 4, 5, -1, -2, -3, -4, -5] {
                for o in [1i64, -1, 2, -2, 6, -6, 7, -7, 8, -8, 27, -27, 31, -31] {
                    one(format!("{wd}[{n}]{}", fmt_off(o)), "cross_nth_offset", four_years.clone(), rep);
                }
            }
        }
    }
    // 10. sizes: 1..40 entries in every kind of list (spans, rules with each separator, weekdays with
    //     positions, dates, years, weeks), so that a threshold on a length is crossed one by one
    let mut two_years: Vec<NaiveDate> = Vec::new();
    {
        let mut d = dates::ymd(2023, 12, 25);
        while d <= dates::ymd(2026, 1, 7) {
            two_years.push(d);
            d = d.succ_opt().unwrap();
        }
    }
    for k in 1..=40usize {
        let disjoint: Vec<String> = (0..k).map(|i| format!("{}-{}", hm(i as u32 * 35), hm(i as u32 * 35 + 20))).collect();
        one(disjoint.join(","), "size_spans", two_days.clone(), rep);
        let overlapping: Vec<String> = (0..k).map(|i| format!("{}-{}", hm(i as u32 * 17 % 600), hm(700 + i as u32 * 29 % 1500))).collect();
        one(format!("Mo,We,Sa {}", overlapping.join(",")), "size_spans", two_years[..30].to_vec(), rep);
        for sep in ["; ", ", ", " || "] {
            let rules: Vec<String> = (0..k).map(|i| format!("{} {}-{}{}", wds[i % 7], hm(300 + i as u32 * 13), hm(900 + i as u32 * 11), ["", " unknown", " off"][i % 3])).collect();
            one(rules.join(sep), "size_rules", two_years[..45].to_vec(), rep);
        }
        let dates_list: Vec<String> = (0..k).map(|i| format!("{} {:02}", months[(i * 5) % 12], 1 + (i * 7) % 28)).collect();
        one(dates_list.join(","), "size_dates", two_years.clone(), rep);
        let years_list: Vec<String> = (0..k).map(|i| format!("{}", 2020 + 2 * i)).collect();
        let ydays: Vec<NaiveDate> = (2019..=2102).flat_map(|y| [dates::ymd(y, 1, 1), dates::ymd(y, 12, 31), dates::ymd(y, 6, 15)]).collect();
        one(years_list.join(","), "size_years", ydays, rep);
        if k <= 27 {
            let weeks_list: Vec<String> = (0..k).map(|i| format!("{:02}", 1 + 2 * i)).collect();
            one(format!("week {}", weeks_list.join(",")), "size_weeks", two_years.clone(), rep);
        }
        if k <= 21 {
            let wd_list: Vec<String> = (0..k).map(|i| format!("{}[{}]", wds[i % 7], [1, -1, 3][i / 7])).collect();
            one(wd_list.join(","), "size_weekdays", two_years.clone(), rep);
        }
    }
    if args.worker == 0 {
        rep.add("grid_years_covered", years.len() as u64);
    }
}

pub fn run(args: &Args, rep: &mut Report) {
    let n = args.cases(200_000, 400_000);
    let (targeted, random, sweep) = if args.thorough() { (300, 200, 400) } else { (64, 48, 0) };
    for k in 0..n {
        let cfg = GenCfg::standard(args.thorough()).rotated(k);
        let case = gen_case(args, k, &cfg, rep);
        let mut r = case.rng.clone();
        rep.evaluations += 1;
        rep.begin(&case.text);
        coverage_of(&case.ast, rep);
        let oh = match guarded(|| OpeningHours::parse(&case.text)) {
            Ok(Ok(oh)) => oh,
            _ => {
                rep.count("skipped_parser_rejects");
                continue;
            }
        };
        if lib_parse(&case.text).ok().as_ref() != Some(&case.ast) {
            rep.count("skipped_parser_differs");
            continue;
        }
        let oh = oh.with_context(case.hol.context());
        let sweep_here = if sweep > 0 && k % 8 == 0 { sweep * 2 } else { sweep };
        let days = days_for(&case.ast, &case.hol, &mut r, targeted, random, sweep_here);
        match compare(&case.ast, &oh, &case.hol, &days, true, Some(rep)) {
            Err(a) => {
                rep.count(&format!("abstained.{}", a.0.replace(' ', "_")));
            }
            Ok(None) => {
                rep.count("cases_judged");
                if expr::has_selector(&case.ast) {
                    rep.nontrivial(crate::rng::hash64(&format!("{:?}|{}", case.ast, case.hol.to_string())));
                }
                if k < 3 {
                    rep.sample(|| json!({"expr": case.text, "holidays": case.hol.to_string(), "days_compared": days.len(), "first_day": days.first().map(|d| d.to_string())}));
                }
            }
            Ok(Some(mm)) => {
                report_failure(args, rep, &case.ast, &case.hol, &mm);
                if rep.full() {
                    return;
                }
            }
        }
    }
    // exhaustive calendar sweeps: the selectors whose arithmetic depends on the year are compared
    // with the model on the days around their boundaries in EVERY year 1900..9999 (a slip that
    // matters in three years out of 8100 cannot hide from this; it would from random dates)
    {
        let sweeps: [(&str, u8); 9] = [
            ("easter", 0), ("easter -2 days-easter +1 day", 0), ("Feb 29", 1), ("Feb 28-Mar 1 12:00-36:00", 1),
            ("week 53", 2), ("week 01,52 Mo,Su", 2), ("week 02-53/3 We", 2),
            ("Mo[-1],Tu[-1],We[-1],Th[-1],Fr[-1],Sa[-1],Su[-1],Mo[5],Su[5],Fr[4]", 3), ("Th[1],Th[-2] +3 days,Su[-1] -1 day", 3),
        ];
        for (text, kind) in sweeps {
            let Ok(ast) = lib_parse(text) else { continue };
            let Ok(Ok(oh)) = guarded(|| OpeningHours::parse(text)) else { continue };
            let mut days: Vec<NaiveDate> = Vec::new();
            for y in 1900..=9999i32 {
                if (y as u64) % args.of.max(1) != args.worker {
                    continue;
                }
                match kind {
                    0 => {
                        let e = model::easter(y);
                        for k in [-8i64, -7, -6, -3, -2, -1, 0, 1, 2, 6, 7, 8] {
                            days.push(e + Duration::days(k));
                        }
                        // the whole window in which Easter can fall
                        let mut d = dates::ymd(y, 3, 20);
                        while d <= dates::ymd(y, 4, 27) {
                            days.push(d);
                            d = d.succ_opt().unwrap();
                        }
                    }
                    1 => {
                        for (m, dd) in [(2u32, 27u32), (2, 28), (3, 1), (3, 2)] {
                            days.push(dates::ymd(y, m, dd));
                        }
                        days.extend(NaiveDate::from_ymd_opt(y, 2, 29));
                    }
                    2 => {
                        let mut d = dates::ymd(y, 12, 18);
                        for _ in 0..28 {
                            if dates::in_range(d) {
                                days.push(d);
                            }
                            d = d.succ_opt().unwrap();
                        }
                    }
                    _ => {
                        // first and last eight days of four months per year (rotating), all of February
                        for m in [2u32, 1 + (y as u32 % 12), 1 + ((y as u32 + 5) % 12), 12] {
                            let n = model::days_in_month(y, m);
                            for dd in (1..=8).chain(n - 8..=n) {
                                days.push(dates::ymd(y, m, dd));
                            }
                        }
                    }
                }
            }
            days.retain(|d| dates::in_range(*d) && *d != dates::min_day());
            days.sort();
            days.dedup();
            rep.evaluations += 1;
            rep.add("calendar_sweep_days", days.len() as u64);
            match compare(&ast, &oh, &HolSpec::None, &days, false, None) {
                Err(a) => rep.count(&format!("abstained.{}", a.0.replace(' ', "_"))),
                Ok(None) => rep.count("calendar_sweeps_passed"),
                Ok(Some(mm)) => rep.violation("schedule_differs_from_semantics", format!("{text:?} [none] (exhaustive sweep over every year 1900..9999): {}", mm.what), json!({"expr": text, "holidays": "none", "day": mm.day.to_string()}), None),
            }
        }
    }
    if !args.extra.iter().any(|e| e == "nogrid") {
        grids(args, rep);
        if rep.full() {
            return;
        }
    }
    // real-world shapes: sample file and test-source literals, model fed with the parsed AST
    let corpus = corpus();
    rep.add("corpus_expressions_available", corpus.len() as u64);
    for (i, text) in corpus.iter().enumerate() {
        if (i as u64) % args.of.max(1) != args.worker {
            continue;
        }
        let Ok(ast) = lib_parse(text) else { continue };
        let mut r = Rng::new(args.seed, 0xc0c0, i as u64);
        for hol in [HolSpec::None, HolSpec::Country("FR".into()), HolSpec::Synthetic("sparse".into())] {
            if hol != HolSpec::None && !has_holiday_selector(&ast) {
                continue;
            }
            let Ok(Ok(oh)) = guarded(|| OpeningHours::parse(text)) else { continue };
            let oh = oh.with_context(hol.context());
            let days = days_for(&ast, &hol, &mut r, 200, 100, if args.thorough() { 1500 } else { 400 });
            rep.evaluations += 1;
            match compare(&ast, &oh, &hol, &days, true, Some(rep)) {
                Err(a) => rep.count(&format!("abstained.{}", a.0.replace(' ', "_"))),
                Ok(None) => rep.count("corpus_cases_judged"),
                Ok(Some(mm)) => {
                    rep.violation("schedule_differs_from_semantics", format!("{text:?} [{}] (from the repository's sample/test sources): {}", hol.to_string(), mm.what), json!({"expr": text, "holidays": hol.to_string(), "day": mm.day.to_string()}), known::explained_by(&args.known, &ast));
                }
            }
        }
    }
    // thorough: single-selector expressions swept day by day over 1900..2100
    if args.thorough() {
        let n = args.cases(0, 600);
        for k in 0..n {
            let mut cfg = GenCfg::standard(true).rotated(k);
            cfg.focus_pct = 100;
            cfg.max_rules = 1;
            let case = gen_case(args, (1u64 << 40) + k, &cfg, rep);
            let Ok(Ok(oh)) = guarded(|| OpeningHours::parse(&case.text)) else { continue };
            if lib_parse(&case.text).ok().as_ref() != Some(&case.ast) {
                continue;
            }
            let oh = oh.with_context(case.hol.context());
            let mut days = Vec::new();
            let mut d = dates::ymd(1900, 1, 2);
            while d.year() <= 2100 {
                days.push(d);
                d = d.succ_opt().unwrap();
            }
            rep.evaluations += 1;
            rep.count("full_sweeps_1900_2100");
            match compare(&case.ast, &oh, &case.hol, &days, false, Some(rep)) {
                Err(a) => rep.count(&format!("abstained.{}", a.0.replace(' ', "_"))),
                Ok(None) => rep.count("cases_judged"),
                Ok(Some(mm)) => {
                    report_failure(args, rep, &case.ast, &case.hol, &mm);
                    if rep.full() {
                        return;
                    }
                }
            }
        }
    }
    rep.require("cases_judged", 2_000);
    rep.require("cases_with_varying_schedule", 500);
    for s in expr::SEL_KINDS {
        rep.require(&format!("sel.{}.alone", expr::sel_name(s)), 20);
    }
}

pub fn replay(args: &Args, case: &Value, rep: &mut Report) {
    let text = case_expr(case);
    let hol = case_hol(case);
    rep.evaluations += 1;
    let ast = match lib_parse(&text) {
        Ok(a) => a,
        Err(e) => {
            rep.violation("witness_rejected", format!("{text:?}: {e}"), case.clone(), None);
            return;
        }
    };
    let oh = OpeningHours::parse(&text).unwrap().with_context(hol.context());
    let mut r = Rng::new(11, 0, 0);
    let mut days = days_for(&ast, &hol, &mut r, 200, 50, 0);
    if let Some(d) = case["day"].as_str().and_then(|s| s.parse::<NaiveDate>().ok()) {
        for k in -3..=3 {
            let x = d + Duration::days(k);
            if dates::in_range(x) && x != dates::min_day() {
                days.push(x);
            }
        }
    }
    match compare(&ast, &oh, &hol, &days, true, None) {
        Ok(Some(mm)) => {
            let known = known::explained_by(&args.known, &ast);
            rep.violation("schedule_differs_from_semantics", format!("{text:?} [{}]: {}", hol.to_string(), mm.what), case.clone(), known);
        }
        Ok(None) => {}
        Err(a) => rep.count(&format!("abstained.{}", a.0.replace(' ', "_"))),
    }
}
