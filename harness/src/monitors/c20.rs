//! C20 — UniqueSortedVec keeps its sorted-unique invariant under all operations.

use crate::out::{guarded, Args, Report};
use crate::rng::Rng;
use opening_hours_syntax::sorted_vec::UniqueSortedVec;
use serde_json::json;
use std::collections::BTreeSet;
use std::sync::Arc;

fn all_vectors(alphabet: &[i32], max_len: usize) -> Vec<Vec<i32>> {
    let mut out = vec![vec![]];
    let mut frontier = vec![vec![]];
    for _ in 0..max_len {
        let mut next = Vec::new();
        for v in &frontier {
            for a in alphabet {
                let mut n: Vec<i32> = v.clone();
                n.push(*a);
                next.push(n);
            }
        }
        out.extend(next.iter().cloned());
        frontier = next;
    }
    out
}

fn class_of(a: &BTreeSet<i32>, b: &BTreeSet<i32>) -> &'static str {
    if a.is_empty() || b.is_empty() {
        return "empty_operand";
    }
    let (amin, amax) = (*a.iter().next().unwrap(), *a.iter().last().unwrap());
    let (bmin, bmax) = (*b.iter().next().unwrap(), *b.iter().last().unwrap());
    if amax < bmin {
        "disjoint_left_first"
    } else if bmax < amin {
        "disjoint_right_first"
    } else if a == b {
        "equal"
    } else if amax == bmax {
        "equal_tails"
    } else if a.is_subset(b) || b.is_subset(a) {
        "nested"
    } else {
        "interleaved"
    }
}

fn check_pair<T: Ord + Clone + std::fmt::Debug>(
    x: &[T],
    y: &[T],
    probes: &[T],
) -> Result<(), String> {
    let sx: BTreeSet<T> = x.iter().cloned().collect();
    let sy: BTreeSet<T> = y.iter().cloned().collect();
    let ux: UniqueSortedVec<T> = x.to_vec().into();
    let uy: UniqueSortedVec<T> = y.to_vec().into();
    let ex: Vec<T> = sx.iter().cloned().collect();
    if ux.as_slice() != ex.as_slice() {
        return Err(format!("From<Vec>({x:?}) = {:?}, expected {ex:?}", ux.as_slice()));
    }
    let back: Vec<T> = ux.clone().into();
    if back != ex {
        return Err(format!("Into<Vec> of {x:?} = {back:?}"));
    }
    let un = ux.clone().union(uy.clone());
    let eu: Vec<T> = sx.union(&sy).cloned().collect();
    if un.as_slice() != eu.as_slice() {
        return Err(format!("union({x:?}, {y:?}) = {:?}, expected {eu:?}", un.as_slice()));
    }
    for p in probes {
        if ux.contains(p) != sx.contains(p) {
            return Err(format!("{:?}.contains({p:?}) = {}", ux.as_slice(), ux.contains(p)));
        }
        let exp = sx.range(p.clone()..).next();
        if ux.find_first_following(p) != exp {
            return Err(format!("{:?}.find_first_following({p:?}) = {:?}, expected {exp:?}", ux.as_slice(), ux.find_first_following(p)));
        }
        if un.contains(p) != (sx.contains(p) || sy.contains(p)) {
            return Err(format!("union({x:?},{y:?}).contains({p:?}) wrong"));
        }
    }
    Ok(())
}

/// Size ladder: operands described by (shape, length) instead of by their elements, lengths on a
/// ladder 0..70, then 2^k - 1, 2^k, 2^k + 1 and 3 * 2^(k-1) up to 2^18: thresholds on the operand size
/// are crossed one rung at a time. Elements are generated from the description (replayable).
fn ladder_operands(shape: u64, len: usize) -> (Vec<i64>, Vec<i64>) {
    let l = len as i64;
    match shape {
        // interleaved, every third value shared
        0 => ((0..l).map(|i| 2 * i).collect(), (0..l).map(|i| if i % 3 == 0 { 2 * i } else { 2 * i + 1 }).collect()),
        // a long operand and a tiny one sharing its largest values (unsorted input with duplicates)
        1 => ((0..l).rev().chain(0..l.min(3)).collect(), vec![l - 1, l + 5, l - 1, (l - 11).max(0)]),
        // equal operands
        2 => ((0..l).map(|i| 7 * i - 100).collect(), (0..l).map(|i| 7 * i - 100).collect()),
        // strict prefix
        3 => ((0..l).collect(), (0..l / 2).collect()),
        // nested in the middle, nothing shared
        4 => ((0..l).map(|i| 10 * i).collect(), (l / 3..2 * l / 3).map(|i| 10 * i + 5).collect()),
        // pseudo-random with many duplicates
        _ => {
            let mut r = Rng::new(0x1adde2, shape, len as u64);
            let span = (l / 2).max(2);
            ((0..l).map(|_| r.range(-span, span)).collect(), (0..l).map(|_| r.range(-span, span)).collect())
        }
    }
}

fn check_ladder(shape: u64, len: usize) -> Result<(), String> {
    let (x, y) = ladder_operands(shape, len);
    let sx: BTreeSet<i64> = x.iter().copied().collect();
    let sy: BTreeSet<i64> = y.iter().copied().collect();
    let ux: UniqueSortedVec<i64> = x.clone().into();
    let uy: UniqueSortedVec<i64> = y.clone().into();
    let strictly_increasing = |v: &[i64]| v.windows(2).all(|w| w[0] < w[1]);
    let describe = |got: &[i64], exp: &[i64]| -> String {
        let i = got.iter().zip(exp.iter()).position(|(a, b)| a != b).unwrap_or(got.len().min(exp.len()));
        format!("{} elements instead of {}; first difference at index {i}: {:?} vs {:?}", got.len(), exp.len(), got.get(i.saturating_sub(1)..(i + 2).min(got.len())), exp.get(i.saturating_sub(1)..(i + 2).min(exp.len())))
    };
    let ex: Vec<i64> = sx.iter().copied().collect();
    if ux.as_slice() != ex.as_slice() {
        return Err(format!("From<Vec> of shape {shape}, {len} elements: {}", describe(ux.as_slice(), &ex)));
    }
    let eu: Vec<i64> = sx.union(&sy).copied().collect();
    for (what, un) in [("union(x, y)", ux.clone().union(uy.clone())), ("union(y, x)", uy.clone().union(ux.clone()))] {
        if !strictly_increasing(un.as_slice()) || un.as_slice() != eu.as_slice() {
            return Err(format!("{what} of shape {shape} with operands of {} and {} distinct elements is not the sorted set union: {}", ex.len(), sy.len(), describe(un.as_slice(), &eu)));
        }
        for p in [-1i64, 0, 1, len as i64 / 2, len as i64 - 1, len as i64, 2 * len as i64 + 1] {
            if un.contains(&p) != (sx.contains(&p) || sy.contains(&p)) {
                return Err(format!("{what} of shape {shape}, length {len}: contains({p}) = {}", un.contains(&p)));
            }
            if un.find_first_following(&p) != eu.iter().find(|v| **v >= p) {
                return Err(format!("{what} of shape {shape}, length {len}: find_first_following({p}) = {:?}", un.find_first_following(&p)));
            }
        }
    }
    Ok(())
}


/// Run-structured operands: an increasing sequence cut into consecutive blocks, each block owned by
/// the left operand, the right operand or both. Merges that look at *run lengths* (galloping,
/// binary-search fast paths, block copies) depend on how the length of one run relates to the
/// next - equal, one more or less, double, double plus one - and on what follows the run (a shared
/// value, the end of an operand). `desc` = list of (owner, length): owner 0 = left, 1 = right, 2 = both.
fn run_operands(desc: &[(u8, usize)]) -> (Vec<i64>, Vec<i64>) {
    let (mut x, mut y) = (Vec::new(), Vec::new());
    let mut v = -3i64;
    for (owner, len) in desc {
        for _ in 0..*len {
            v += 1;
            if *owner != 1 {
                x.push(v);
            }
            if *owner != 0 {
                y.push(v);
            }
        }
    }
    (x, y)
}

fn check_runs(desc: &[(u8, usize)]) -> Result<(), String> {
    let (x, y) = run_operands(desc);
    let sx: BTreeSet<i64> = x.iter().copied().collect();
    let sy: BTreeSet<i64> = y.iter().copied().collect();
    let eu: Vec<i64> = sx.union(&sy).copied().collect();
    let ux: UniqueSortedVec<i64> = x.clone().into();
    let uy: UniqueSortedVec<i64> = y.clone().into();
    for (what, un) in [("union(x, y)", ux.clone().union(uy.clone())), ("union(y, x)", uy.clone().union(ux.clone()))] {
        if un.as_slice() != eu.as_slice() {
            let i = un.as_slice().iter().zip(eu.iter()).position(|(a, b)| a != b).unwrap_or(un.as_slice().len().min(eu.len()));
            return Err(format!(
                "{what} of run-structured operands {desc:?} (owner 0 = left, 1 = right, 2 = both; consecutive integers from -2) has {} elements instead of {}; first difference at index {i}: {:?} vs {:?}",
                un.as_slice().len(),
                eu.len(),
                un.as_slice().get(i.saturating_sub(1)..(i + 2).min(un.as_slice().len())),
                eu.get(i.saturating_sub(1)..(i + 2).min(eu.len()))
            ));
        }
    }
    Ok(())
}

fn run_family(args: &Args, rep: &mut Report) {
    let reduced = args.extra.iter().any(|e| e == "norandom");
    let mut idx = 0u64;
    let mut try_desc = |desc: Vec<(u8, usize)>, sharded: bool, rep: &mut Report| {
        if sharded {
            idx += 1;
            if (idx - 1) % args.of.max(1) != args.worker {
                return;
            }
        }
        if rep.full() {
            return;
        }
        rep.evaluations += 1;
        rep.count("run_structured_pairs");
        rep.begin(&format!("run-structured operands {desc:?}"));
        match guarded(|| check_runs(&desc)) {
            Ok(Ok(())) => {}
            Ok(Err(msg)) => rep.violation("set_semantics", msg, json!({"runs": desc.iter().map(|(o, l)| json!([o, l])).collect::<Vec<_>>()}), None),
            Err(p) => rep.violation("panic", format!("panic on run-structured operands {desc:?}: {p}"), json!({"runs": desc.iter().map(|(o, l)| json!([o, l])).collect::<Vec<_>>()}), None),
        }
    };
    // deterministic grid: [lead] run r of one operand, run r2 of the other (r2 related to r), then
    // what follows (shared value / one more of either / nothing), then an optional tail
    let mut rs: Vec<usize> = (1..=(if reduced { 6 } else { 72 })).collect();
    if !reduced {
        for k in 7..=10 {
            rs.extend([(1usize << k) - 1, 1 << k, (1 << k) + 1]);
        }
    }
    for &r in &rs {
        let mut rel: Vec<usize> = vec![r.saturating_sub(1), r, r + 1, 2 * r - 1, 2 * r, 2 * r + 1, 4 * r + 3, r / 2];
        rel.retain(|v| *v > 0);
        rel.dedup();
        for &r2 in &rel {
            for first in [0u8, 1] {
                for follow in [None, Some(2u8), Some(first), Some(1 - first)] {
                    for lead in [None, Some(2u8)] {
                        for tail in [0usize, 1, r] {
                            let mut d = Vec::new();
                            if let Some(o) = lead {
                                d.push((o, 1));
                            }
                            d.push((first, r));
                            d.push((1 - first, r2));
                            if let Some(o) = follow {
                                d.push((o, 1));
                            }
                            if tail > 0 {
                                d.push((first, tail));
                            }
                            try_desc(d, true, rep);
                        }
                    }
                }
            }
        }
    }
    // random chains of runs whose lengths relate to the previous run's
    let n = if reduced { 0 } else { args.cases(6_000, 200_000) };
    let ladder: Vec<usize> = vec![1, 2, 3, 4, 7, 8, 9, 15, 16, 17, 31, 32, 33, 63, 64, 65, 100, 127, 128, 129, 255, 256, 257];
    for k in 0..n {
        let mut r = Rng::new(args.seed ^ 0x2b5, args.worker, k);
        let blocks = 2 + r.below(9) as usize;
        let mut d: Vec<(u8, usize)> = Vec::new();
        let mut prev = *r.pick(&ladder);
        for _ in 0..blocks {
            let len = match r.below(10) {
                0..=2 => prev,
                3 => prev + 1,
                4 => prev.saturating_sub(1).max(1),
                5 => 2 * prev,
                6 => 2 * prev + 1,
                7 => 1,
                _ => *r.pick(&ladder),
            }
            .min(600);
            let owner = match (d.last(), r.below(10)) {
                (Some((o, _)), 0..=5) if *o != 2 => 1 - *o,
                (_, 6..=7) => 2,
                _ => r.below(2) as u8,
            };
            d.push((owner, if owner == 2 && r.chance(70) { 1 } else { len }));
            if owner != 2 {
                prev = len;
            }
        }
        rep.nontrivial(crate::rng::hash64(&format!("{d:?}")));
        try_desc(d, false, rep);
    }
}

fn ladder(args: &Args, rep: &mut Report) {
    // (the reduced workload run under the interpreter keeps a short ladder)
    let reduced = args.extra.iter().any(|e| e == "norandom");
    let mut lens: Vec<usize> = if reduced { vec![0, 1, 2, 3, 5, 8, 13, 21, 34, 55] } else { (0..=70).collect() };
    for k in 7..=(if reduced { 8 } else { 18 }) {
        lens.extend([(1usize << k) - 1, 1 << k, (1 << k) + 1, 3 << (k - 1)]);
    }
    let mut idx = 0u64;
    for len in lens {
        for shape in 0..8u64 {
            idx += 1;
            if (idx - 1) % args.of.max(1) != args.worker {
                continue;
            }
            rep.evaluations += 1;
            rep.begin(&format!("size ladder: shape {shape}, length {len}"));
            rep.count("ladder_pairs");
            rep.max("ladder_max_operand_length", len as u64);
            match guarded(|| check_ladder(shape, len)) {
                Ok(Ok(())) => {}
                Ok(Err(msg)) => rep.violation("set_semantics", msg, json!({"ladder_shape": shape, "ladder_len": len}), None),
                Err(p) => rep.violation("panic", format!("panic on the size ladder (shape {shape}, length {len}): {p}"), json!({"ladder_shape": shape, "ladder_len": len}), None),
            }
            if rep.full() {
                return;
            }
        }
    }
}

pub fn run(args: &Args, rep: &mut Report) {
    ladder(args, rep);
    if rep.full() {
        return;
    }
    run_family(args, rep);
    if rep.full() {
        return;
    }
    let max_len: usize = args
        .extra
        .iter()
        .find_map(|e| e.strip_prefix("len=").and_then(|s| s.parse().ok()))
        .unwrap_or(if args.thorough() { 6 } else { 5 });
    let alphabet = [0, 1, 2, 3];
    let probes = [-1, 0, 1, 2, 3, 4];
    let vs = all_vectors(&alphabet, max_len);
    rep.exhaustive = true;
    rep.add("vectors_enumerated", vs.len() as u64);

    for (i, x) in vs.iter().enumerate() {
        if (i as u64) % args.of.max(1) != args.worker {
            continue;
        }
        let sx: BTreeSet<i32> = x.iter().copied().collect();
        for y in &vs {
            rep.evaluations += 1;
            let sy: BTreeSet<i32> = y.iter().copied().collect();
            let cls = class_of(&sx, &sy);
            rep.count(&format!("class.{cls}"));
            if cls != "empty_operand" {
                rep.count("distinct_enumerated");
            }
            match guarded(|| check_pair(x, y, &probes)) {
                Ok(Ok(())) => {}
                Ok(Err(msg)) => rep.violation("set_semantics", msg, json!({"x": x, "y": y}), None),
                Err(p) => rep.violation("panic", format!("panic on ({x:?}, {y:?}): {p}"), json!({"x": x, "y": y}), None),
            }
            if rep.full() {
                return;
            }
        }
    }
    rep.sample(|| json!({"x":[3,1,3,0],"y":[2,2],"union":[0,1,2,3]}));

    // random longer vectors (recursion depth of union is linear by design: keep <= 2000)
    let n = if args.extra.iter().any(|e| e == "norandom") { 0 } else { args.cases(400, 8000) };
    for k in 0..n {
        let mut r = Rng::new(args.seed, args.worker, k);
        let bx = if r.chance(10) { 2000 } else { 60 };
        let by = if r.chance(10) { 2000 } else { 60 };
        let lx = r.below(bx) as usize;
        let ly = r.below(by) as usize;
        let span = *r.pick(&[4i64, 10, 50, 3000, 1 << 40]);
        let x: Vec<i64> = (0..lx).map(|_| r.range(-span, span)).collect();
        let y: Vec<i64> = if r.chance(15) { x.clone() } else { (0..ly).map(|_| r.range(-span, span)).collect() };
        let probes: Vec<i64> = (0..8).map(|_| r.range(-span - 1, span + 1)).collect();
        rep.evaluations += 1;
        rep.count("random_pairs");
        rep.nontrivial(crate::rng::hash64(&format!("{x:?}|{y:?}")));
        match guarded(|| check_pair(&x, &y, &probes)) {
            Ok(Ok(())) => {}
            Ok(Err(msg)) => rep.violation("set_semantics", msg, json!({"x": x, "y": y}), None),
            Err(p) => rep.violation("panic", format!("panic: {p}"), json!({"x": x, "y": y}), None),
        }
        // Arc<str>, the element type used for comments
        let words = ["", "a", "b", "ab", "closed", "é", "zz", "a, b", "B"];
        let xs: Vec<Arc<str>> = (0..r.below(7)).map(|_| Arc::from(*r.pick(&words))).collect();
        let ys: Vec<Arc<str>> = (0..r.below(7)).map(|_| Arc::from(*r.pick(&words))).collect();
        let ps: Vec<Arc<str>> = words.iter().map(|w| Arc::from(*w)).collect();
        rep.count("arc_str_pairs");
        match guarded(|| check_pair(&xs, &ys, &ps)) {
            Ok(Ok(())) => {}
            Ok(Err(msg)) => rep.violation("set_semantics", msg, json!({"x": xs.iter().map(|s| s.to_string()).collect::<Vec<_>>(), "y": ys.iter().map(|s| s.to_string()).collect::<Vec<_>>(), "elem": "Arc<str>"}), None),
            Err(p) => rep.violation("panic", format!("panic: {p}"), json!({"elem": "Arc<str>"}), None),
        }
        // to_ref keeps content and order
        let u: UniqueSortedVec<String> = xs.iter().map(|s| s.to_string()).collect::<Vec<_>>().into();
        let refs: UniqueSortedVec<&str> = u.to_ref();
        if refs.iter().map(|s| s.to_string()).collect::<Vec<_>>() != u.iter().cloned().collect::<Vec<_>>() {
            rep.violation("to_ref", format!("to_ref changed content: {:?}", u.as_slice()), json!({"x": u.as_slice()}), None);
        }
    }
    if n == 0 {
        return;
    }
    for cls in ["empty_operand", "disjoint_left_first", "disjoint_right_first", "equal", "equal_tails", "nested", "interleaved"] {
        rep.require(&format!("class.{cls}"), 1);
    }
}

pub fn replay(case: &serde_json::Value, rep: &mut Report) {
    if let Some(runs) = case["runs"].as_array() {
        let desc: Vec<(u8, usize)> = runs.iter().map(|p| (p[0].as_u64().unwrap_or(0) as u8, p[1].as_u64().unwrap_or(0) as usize)).collect();
        rep.evaluations += 1;
        match guarded(|| check_runs(&desc)) {
            Ok(Ok(())) => {}
            Ok(Err(msg)) => rep.violation("set_semantics", msg, case.clone(), None),
            Err(p) => rep.violation("panic", format!("panic on run-structured operands {desc:?}: {p}"), case.clone(), None),
        }
        return;
    }
    if let (Some(shape), Some(len)) = (case["ladder_shape"].as_u64(), case["ladder_len"].as_u64()) {
        rep.evaluations += 1;
        match guarded(|| check_ladder(shape, len as usize)) {
            Ok(Ok(())) => {}
            Ok(Err(msg)) => rep.violation("set_semantics", msg, case.clone(), None),
            Err(p) => rep.violation("panic", format!("panic on the size ladder (shape {shape}, length {len}): {p}"), case.clone(), None),
        }
        return;
    }
    let get = |k: &str| -> Vec<i64> { case[k].as_array().map(|a| a.iter().filter_map(|v| v.as_i64()).collect()).unwrap_or_default() };
    let (x, y) = (get("x"), get("y"));
    let mut probes: Vec<i64> = x.iter().chain(y.iter()).flat_map(|v| [v - 1, *v, v + 1]).collect();
    probes.push(0);
    rep.evaluations += 1;
    match guarded(|| check_pair(&x, &y, &probes)) {
        Ok(Ok(())) => {}
        Ok(Err(msg)) => rep.violation("set_semantics", msg, case.clone(), None),
        Err(p) => rep.violation("panic", format!("panic: {p}"), case.clone(), None),
    }
}
