//! C09 — Time-zone contexts evaluate on local wall-clock time and map results back.

use super::common::*;
use crate::gen::ctx::HolSpec;
use crate::gen::expr::{self, GenCfg};
use crate::known::{self, Classified};
use crate::out::{guarded, Args, Report};
use crate::render;
use crate::rng::Rng;
use crate::stream::Oh;
use chrono::offset::LocalResult;
use chrono::{DateTime, Datelike, Duration, NaiveDate, NaiveDateTime, Offset, TimeZone, Timelike, Utc};
use chrono_tz::Tz;
use opening_hours::localization::TzLocation;
use opening_hours::verif_hooks as hooks;
use opening_hours::{Context, OpeningHours};
use opening_hours_syntax::rules::time::{Time, TimeSelector, TimeSpan};
use opening_hours_syntax::rules::{OpeningHoursExpression, RuleKind, RuleOperator, RuleSequence};
use opening_hours_syntax::ExtendedTime;
use serde_json::{json, Value};
use std::collections::HashMap;

pub type TzOh = OpeningHours<TzLocation<Tz>>;

pub const ZONES: [&str; 46] = [
    "UTC", "Europe/Paris", "Europe/London", "Europe/Dublin", "Europe/Lisbon", "Europe/Moscow", "Europe/Istanbul", "Europe/Chisinau",
    "America/New_York", "America/Los_Angeles", "America/Sao_Paulo", "America/Santiago", "America/St_Johns", "America/Havana", "America/Caracas",
    "America/Asuncion", "America/Godthab", "America/Scoresbysund", "America/Phoenix", "America/Mexico_City",
    "Australia/Lord_Howe", "Australia/Sydney", "Australia/Adelaide", "Australia/Eucla", "Pacific/Auckland", "Pacific/Chatham", "Pacific/Apia",
    "Pacific/Kiritimati", "Pacific/Fiji", "Pacific/Tongatapu", "Pacific/Norfolk", "Asia/Kolkata", "Asia/Kathmandu", "Asia/Tehran", "Asia/Kabul",
    "Asia/Tokyo", "Asia/Pyongyang", "Asia/Gaza", "Asia/Amman", "Asia/Dhaka", "Africa/Cairo", "Africa/Casablanca", "Africa/Monrovia",
    "Antarctica/Troll", "Atlantic/Azores", "Asia/Manila",
];

fn parse_tz(name: &str) -> Tz {
    name.parse().unwrap_or(chrono_tz::UTC)
}

/// Transitions (UTC instants at which the offset changes) of a zone in a year, found by scanning.
pub fn transitions(tz: Tz, year: i32, cache: &mut HashMap<(Tz, i32), Vec<(NaiveDateTime, i32, i32)>>) -> Vec<(NaiveDateTime, i32, i32)> {
    if let Some(v) = cache.get(&(tz, year)) {
        return v.clone();
    }
    let off = |t: NaiveDateTime| tz.offset_from_utc_datetime(&t).fix().local_minus_utc();
    let mut out = Vec::new();
    let start = NaiveDate::from_ymd_opt(year, 1, 1).unwrap().and_hms_opt(0, 0, 0).unwrap() - Duration::days(1);
    let end = NaiveDate::from_ymd_opt(year + 1, 1, 1).unwrap().and_hms_opt(0, 0, 0).unwrap() + Duration::days(1);
    let step = Duration::hours(6);
    let mut t = start;
    let mut o = off(t);
    while t < end {
        let n = t + step;
        let on = off(n);
        if on != o {
            // bisect to the second
            let (mut lo, mut hi) = (t, n);
            while hi - lo > Duration::seconds(1) {
                let mid = lo + (hi - lo) / 2;
                if off(mid) == o {
                    lo = mid;
                } else {
                    hi = mid;
                }
            }
            out.push((hi, o, on));
        }
        o = on;
        t = n;
    }
    cache.insert((tz, year), out.clone());
    out
}

/// Independent statement of the mapping naive -> context-zone instant.
fn check_mapping(tz: Tz, naive: NaiveDateTime, got: &DateTime<Tz>, what: &str, stats: &mut MapStats) -> Result<(), String> {
    if got.timezone() != tz {
        return Err(format!("{what}: returned instant {got} is not in the context zone {tz}"));
    }
    match tz.from_local_datetime(&naive) {
        LocalResult::Single(x) => {
            stats.unique += 1;
            if *got != x {
                return Err(format!("{what}: naive result {naive} maps to {got}, expected {x}"));
            }
        }
        LocalResult::Ambiguous(a, b) => {
            stats.ambiguous += 1;
            let later = if a > b { a } else { b };
            if *got != later {
                return Err(format!("{what}: naive result {naive} is ambiguous in {tz} ({a} / {b}); returned {got}, expected the later one {later}"));
            }
        }
        LocalResult::None => {
            stats.nonexistent += 1;
            let wall = got.naive_local();
            if wall < naive {
                return Err(format!("{what}: naive result {naive} does not exist in {tz}; returned {got} whose wall-clock time is before it"));
            }
            match tz.from_local_datetime(&wall) {
                LocalResult::None => return Err(format!("{what}: returned {got} has a wall-clock time that does not exist")),
                LocalResult::Single(x) if x != *got => return Err(format!("{what}: returned {got} is not the instant with wall-clock {wall} ({x})")),
                _ => {}
            }
            if wall - naive > Duration::hours(49) {
                return Err(format!("{what}: naive result {naive} does not exist in {tz}; returned {got}, more than two days later"));
            }
            // every minute-aligned wall time in [naive, wall(r)) must be non-existent
            let mut m = naive;
            while m < wall {
                if !matches!(tz.from_local_datetime(&m), LocalResult::None) {
                    return Err(format!("{what}: naive result {naive} does not exist in {tz}; returned {got} although the earlier wall-clock time {m} exists (not the first valid instant after it)"));
                }
                m += Duration::minutes(1);
            }
        }
    }
    Ok(())
}

#[derive(Default)]
pub struct MapStats {
    pub unique: u64,
    pub ambiguous: u64,
    pub nonexistent: u64,
    pub budget_cut: u64,
    pub intervals: u64,
}

fn build_both(text: &str, hol: &HolSpec, tz: Tz) -> Option<(Oh, TzOh)> {
    match guarded(|| OpeningHours::parse(text)) {
        Ok(Ok(oh)) => {
            let naive = oh.clone().with_context(hol.context());
            let zoned = oh.with_context(Context::default().with_holidays(hol.build()).with_locale(TzLocation::new(tz)));
            Some((naive, zoned))
        }
        _ => None,
    }
}

fn budgeted<T>(f: impl FnOnce() -> T) -> Result<Option<T>, String> {
    hooks::arm_budget(hooks::Site::TzMinuteStep, 200_000);
    let r = crate::stream::with_day_budget(6_000, f);
    // (with_day_budget resets the counters, arms the day budget on top, and disarms everything)
    r
}

/// All C09 checks at one instant (given in UTC); `other_zones`: zones in which the input is expressed.
pub fn check(naive_oh: &Oh, tz_oh: &TzOh, tz: Tz, i_utc: NaiveDateTime, other_zones: &[Tz], span: Duration, st: &mut MapStats) -> Result<(), String> {
    let i = tz.from_utc_datetime(&i_utc);
    let wall = i.naive_local();
    // (a) state: any input zone, equals naive evaluation at the wall-clock time
    let expect = guarded(|| naive_oh.state(wall)).map_err(|p| format!("naive state({wall}) panicked: {p}"))?;
    for z in std::iter::once(&tz).chain(other_zones.iter()) {
        let input = i.with_timezone(z);
        // the library takes DateTime<Tz> of the context's zone type; any zone value is accepted
        let got = guarded(|| tz_oh.state(input)).map_err(|p| format!("state({input}) panicked: {p}"))?;
        if got != expect {
            return Err(format!("state({input}) [{}] = {got} in zone context {tz}, but evaluating without location at the wall-clock time {wall} gives {expect}", z));
        }
        let (o, c, u) = guarded(|| (tz_oh.is_open(input), tz_oh.is_closed(input), tz_oh.is_unknown(input))).map_err(|p| format!("is_* panicked: {p}"))?;
        if (o, c, u) != (expect == RuleKind::Open, expect == RuleKind::Closed, expect == RuleKind::Unknown) {
            return Err(format!("is_open/is_closed/is_unknown({input}) = {o}/{c}/{u}, state is {expect}"));
        }
    }
    // (b) next_change
    let input = if other_zones.is_empty() { i } else { i.with_timezone(&other_zones[0]) };
    let naive_next = budgeted(|| naive_oh.next_change(wall)).map_err(|p| format!("naive next_change panicked: {p}"))?;
    let tz_next = budgeted(|| tz_oh.next_change(input)).map_err(|p| format!("next_change({input}) panicked: {p}"))?;
    match (naive_next, tz_next) {
        (Some(n), Some(t)) => match (n, t) {
            (None, None) => {}
            (Some(n), Some(t)) => check_mapping(tz, n, &t, &format!("next_change({input})"), st)?,
            (n, t) => return Err(format!("next_change({input}) = {t:?} in zone context {tz}, naive evaluation at {wall} gives {n:?}")),
        },
        _ => st.budget_cut += 1,
    }
    // (b, c) interval bounds
    let to_utc = i_utc + span;
    let to = tz.from_utc_datetime(&to_utc);
    let wall_to = to.naive_local();
    let naive_ivs = guarded(|| naive_oh.iter_range(wall, wall_to).take(120).collect::<Vec<_>>()).map_err(|p| format!("naive iter_range panicked: {p}"))?;
    // mapping a bound into the zone steps minute by minute over a gap: at most a bit more than the
    // longest gap (a skipped local day) per bound - a budget (hook H1) turns a runaway into a verdict
    hooks::reset_ticks();
    hooks::arm_budget(hooks::Site::TzMinuteStep, 2 * 120 * 3_000);
    let tz_ivs = guarded(|| tz_oh.iter_range(input.clone(), to.clone()).take(120).collect::<Vec<_>>());
    hooks::disarm_budgets();
    let tz_ivs = tz_ivs.map_err(|p| if p.starts_with("step budget exceeded") { format!("iter_range({input}, {to}): more than 720000 minute steps while mapping interval bounds into {tz}: the gap is never left") } else { format!("iter_range({input}, {to}) panicked: {p}") })?;
    if naive_ivs.len() != tz_ivs.len() {
        return Err(format!("iter_range({input}, {to}) yields {} intervals in zone context {tz}, naive evaluation of [{wall}, {wall_to}) yields {}", tz_ivs.len(), naive_ivs.len()));
    }
    let mut last: Option<DateTime<Tz>> = None;
    for (n, t) in naive_ivs.iter().zip(&tz_ivs) {
        st.intervals += 1;
        if n.kind != t.kind || n.comments != t.comments {
            return Err(format!("iter_range({input}, {to}): interval {:?}..{:?} has state {} / comments {:?}, naive evaluation gives {} / {:?}", t.range.start, t.range.end, t.kind, t.comments, n.kind, n.comments));
        }
        check_mapping(tz, n.range.start, &t.range.start, &format!("iter_range({input}, {to}) interval start"), st)?;
        check_mapping(tz, n.range.end, &t.range.end, &format!("iter_range({input}, {to}) interval end"), st)?;
        if t.range.end < t.range.start {
            return Err(format!("iter_range({input}, {to}): interval end {} is before its start {} in absolute time", t.range.end, t.range.start));
        }
        if let Some(l) = &last {
            if t.range.start < *l {
                return Err(format!("iter_range({input}, {to}): interval start {} goes backwards in absolute time (previous bound {l})", t.range.start));
            }
        }
        last = Some(t.range.end.clone());
    }
    Ok(())
}

/// A rule whose span bounds sit inside / next to the gap or fold of a transition.
fn transition_rule(r: &mut Rng, tz: Tz, tr: &(NaiveDateTime, i32, i32)) -> RuleSequence {
    let before_wall = tr.0 + Duration::seconds(tr.1 as i64); // wall clock just before the change
    let after_wall = tr.0 + Duration::seconds(tr.2 as i64);
    let (lo, hi) = if before_wall < after_wall { (before_wall, after_wall) } else { (after_wall, before_wall) };
    let _ = tz;
    let pick = |r: &mut Rng| -> ExtendedTime {
        let base = match r.below(4) {
            0 => lo,
            1 => hi,
            2 => lo + (hi - lo) / 2,
            _ => lo - Duration::minutes(30),
        };
        let t = base + Duration::minutes(*r.pick(&[-1i64, 0, 0, 1, 15]));
        ExtendedTime::new(t.time().hour() as u8, t.time().minute() as u8).unwrap()
    };
    let (a, b) = (pick(r), pick(r));
    let kind = if r.chance(70) { RuleKind::Open } else { RuleKind::Unknown };
    RuleSequence {
        day_selector: Default::default(),
        time_selector: TimeSelector { time: vec![TimeSpan { range: Time::Fixed(a)..Time::Fixed(b), open_end: false, repeats: None }] },
        kind,
        operator: if r.chance(50) { RuleOperator::Normal } else { RuleOperator::Additional },
        comments: Default::default(),
    }
}

fn report_failure(args: &Args, rep: &mut Report, ast: &OpeningHoursExpression, hol: &HolSpec, tz: Tz, i_utc: NaiveDateTime, zones: &[Tz], span: Duration, msg: &str) {
    let fails = |c: &OpeningHoursExpression| -> Option<String> {
        let (n, z) = build_both(&render::plain(c), hol, tz)?;
        let mut st = MapStats::default();
        check(&n, &z, tz, i_utc, zones, span, &mut st).err()
    };
    let classified = known::classify(&args.known, ast, &|c| denotable(c), &mut |c| fails(c).is_some(), 300);
    let (small, known) = match classified {
        Classified::Unexplained(s) => (s, None),
        Classified::Explained(s, t) => (s, Some(t)),
    };
    let text = render::plain(&small);
    let what = fails(&small).unwrap_or_else(|| msg.to_string());
    rep.violation("timezone_mapping", format!("{text:?} [{}] zone {tz}: {what}", hol.to_string()), json!({"expr": text, "holidays": hol.to_string(), "zone": tz.name(), "instant_utc": i_utc.to_string(), "input_zones": zones.iter().map(|z| z.name()).collect::<Vec<_>>(), "span_minutes": span.num_minutes()}), known);
}



/// One (context zone, input zone, instant) triple of the input-zone sweep. `Err` = violation text.
fn check_input_pair(text: &str, z: Tz, w: Tz, i_utc: NaiveDateTime) -> Result<(), String> {
    let Some((_, tz_oh)) = build_both(text, &HolSpec::None, z) else { return Ok(()) };
    let i_z = z.from_utc_datetime(&i_utc);
    let wall = i_z.naive_local();
    let first_of = |i: DateTime<Tz>| guarded(|| tz_oh.iter_range(i.clone(), i.clone() + Duration::days(2)).next().map(|iv| (iv.range.start.clone(), iv.range.end.clone(), iv.kind)));
    let want_next = guarded(|| tz_oh.next_change(i_z.clone())).ok().flatten();
    let want_first = first_of(i_z.clone()).ok().flatten();
    let i_w = w.from_utc_datetime(&i_utc);
    let got_state = guarded(|| tz_oh.state(i_w.clone()));
    let got_next = guarded(|| tz_oh.next_change(i_w.clone()));
    let got_first = first_of(i_w.clone());
    let offs = format!("offsets {} s vs {} s", i_z.offset().fix().local_minus_utc(), i_w.offset().fix().local_minus_utc());
    match got_state {
        Ok(k) if k == RuleKind::Open => {}
        other => return Err(format!("instant given in zone {w} ({offs}): state({i_w}) = {other:?} although the wall clock in {z} reads {wall}, inside the open minute")),
    }
    match (&got_next, &want_next) {
        (Ok(Some(a)), Some(b)) if a == b && a.timezone() == z => {}
        (Ok(None), None) => {}
        _ => return Err(format!("instant given in zone {w} ({offs}): next_change({i_w}) = {got_next:?}, but the same instant given in the context zone ({i_z}) gives {want_next:?}")),
    }
    match (&got_first, &want_first) {
        (Ok(Some(a)), Some(b)) if a == b && a.0 == i_z => {}
        _ => return Err(format!("instant given in zone {w} ({offs}): first interval of iter_range({i_w}, +2 days) = {got_first:?}; the same instant given in the context zone gives {want_first:?} (it must start at the requested instant)")),
    }
    Ok(())
}

/// Every context zone x every zone the INPUT instant can be expressed in, at instants where offsets
/// are "odd" (local-mean-time era: second-granular offsets) and ordinary: the instant is converted
/// to the context zone whatever zone it arrives in. For the instant's wall-clock minute `hh:mm` in
/// the context zone the rule `hh:mm-(hh:mm + 1 min)` is open exactly during that minute; the instant
/// is taken at second 0 and at second 59 of the minute, so a conversion that is off by even one
/// second in either direction leaves the minute at one of the two. The same call with the instant
/// expressed in the context zone itself is the reference for `next_change` and the first interval.
fn input_zone_sweep(args: &Args, rep: &mut Report) {
    let of = args.of.max(1) as usize;
    let years: &[i32] = if args.thorough() { &[1901, 1905, 1912, 1919, 1925, 1931, 1950, 2024] } else { &[1905, 1925, 2024] };
    for (zi, z) in chrono_tz::TZ_VARIANTS.iter().enumerate() {
        if zi % of != args.worker as usize || rep.full() {
            continue;
        }
        let z = *z;
        for &year in years {
            for sec in [0u32, 59] {
                // a UTC instant whose wall clock in Z is at second `sec` of its minute
                let base = NaiveDate::from_ymd_opt(year, 6, 15).unwrap().and_hms_opt(11, 37, 0).unwrap() + Duration::days((zi % 28) as i64);
                let wall0 = z.from_utc_datetime(&base).naive_local();
                let i_utc = base + Duration::seconds(sec as i64 - wall0.second() as i64);
                let i_z = z.from_utc_datetime(&i_utc);
                let wall = i_z.naive_local();
                if wall.second() != sec {
                    rep.count("input_zone_sweep_skipped_unaligned");
                    continue;
                }
                let (h, m) = (wall.hour(), wall.minute());
                let (h2, m2) = if m == 59 { (h + 1, 0) } else { (h, m + 1) };
                let text = format!("{h:02}:{m:02}-{h2:02}:{m2:02}");
                let Some((_, tz_oh)) = build_both(&text, &HolSpec::None, z) else { continue };
                match guarded(|| tz_oh.state(i_z.clone())) {
                    Ok(k) if k == opening_hours_syntax::rules::RuleKind::Open => {}
                    other => {
                        rep.violation("input_zone", format!("{text:?} in zone {z}: state({i_z}) = {other:?}, but the wall clock reads {wall} (inside the open minute)"), json!({"expr": text, "zone": z.name(), "input_zone_sweep": z.name(), "instant_utc": i_utc.to_string()}), None);
                        continue;
                    }
                }
                for w in chrono_tz::TZ_VARIANTS.iter() {
                    rep.evaluations += 1;
                    match check_input_pair(&text, z, *w, i_utc) {
                        Ok(()) => rep.count("input_zone_pairs_checked"),
                        Err(msg) => {
                            rep.violation("input_zone", format!("{text:?} in zone {z}: {msg}"), json!({"expr": text, "zone": z.name(), "input_zone_sweep": w.name(), "instant_utc": i_utc.to_string()}), None);
                            if rep.full() {
                                return;
                            }
                        }
                    }
                }
            }
        }
    }
}

pub fn run(args: &Args, rep: &mut Report) {
    if !args.extra.iter().any(|e| e == "nosweep") {
        input_zone_sweep(args, rep);
    }
    let n = args.cases(120_000, 1_200_000);
    let mut cache = HashMap::new();
    let mut st = MapStats::default();
    // Exhaustive part: every zone of the database x every offset transition in a span of years
    // (zones sharded over the workers), spans placed in and around the gap / fold.
    if !args.extra.iter().any(|e| e == "nosweep") {
        let (y0, y1) = if args.thorough() { (1900, 2100) } else { (1985, 2037) };
        let of = args.of.max(1) as usize;
        'sweep: for (zi, tz) in chrono_tz::TZ_VARIANTS.iter().enumerate() {
            if zi % of != args.worker as usize {
                continue;
            }
            let tz = *tz;
            let mut any = false;
            for year in y0..=y1 {
                let trs = transitions(tz, year, &mut cache);
                for tr in trs.iter().filter(|t| t.0.date().year() == year) {
                    any = true;
                    rep.count("sweep_transitions");
                    for j in 0..2u64 {
                        let mut r = Rng::new(args.seed ^ 0x5eed, zi as u64, (year as u64) * 64 + j + (tr.0.and_utc().timestamp() as u64 % 32) * 2);
                        let mut rule = transition_rule(&mut r, tz, tr);
                        rule.operator = RuleOperator::Normal; // a first rule cannot be written as additional
                        let ast = OpeningHoursExpression { rules: vec![rule] };
                        if !denotable(&ast) {
                            rep.count("sweep_skipped_not_denotable");
                            continue;
                        }
                        let delta = *r.pick(&[-7200i64, -3601, -3600, -1800, -61, -60, -1, 0, 1, 59, 60, 1799, 1800, 3599, 3600, 7200]);
                        let i_utc = tr.0 + Duration::seconds(delta);
                        let text = render::plain(&ast);
                        let hol = HolSpec::None;
                        let Some((naive_oh, tz_oh)) = build_both(&text, &hol, tz) else {
                            rep.count("sweep_skipped_not_parsed");
                            continue;
                        };
                        let span = Duration::minutes(*r.pick(&[90i64, 1440, 2880, 4000]));
                        rep.evaluations += 1;
                        rep.begin(&format!("sweep {text} | {tz} | {i_utc}"));
                        match check(&naive_oh, &tz_oh, tz, i_utc, &[], span, &mut st) {
                            Ok(()) => {
                                rep.count("sweep_checks_passed");
                                rep.nontrivial(crate::rng::hash64(&format!("{ast:?}|{tz}|{i_utc}")));
                            }
                            Err(msg) => {
                                report_failure(args, rep, &ast, &hol, tz, i_utc, &[], span, &msg);
                                if rep.full() {
                                    break 'sweep;
                                }
                            }
                        }
                    }
                }
            }
            // instants from which calendar arithmetic lands in the gap / fold: the transition's UTC
            // instant minus k whole days (k = 7 always, three more rotating), with expressions that
            // keep one state for weeks, so that an interval or a look-ahead crosses the transition
            for year in y0..=y1 {
                let trs = transitions(tz, year, &mut cache);
                for (ti, tr) in trs.iter().filter(|t| t.0.date().year() == year).enumerate() {
                    let ks_all = [1i64, 2, 3, 6, 8, 14, 21, 28, 30, 31, 365, 366];
                    let rot = (ti as u64 + year as u64 + args.seed) as usize;
                    let ks = [7, ks_all[rot % 12], ks_all[(rot + 5) % 12], ks_all[(rot + 9) % 12]];
                    let gap = (tr.2 - tr.1).abs() as i64;
                    for (j, k) in ks.iter().enumerate() {
                        let delta = [1i64, gap / 2, gap - 1, -1][(j + rot) % 4];
                        let i_utc = tr.0 - Duration::days(*k) + Duration::seconds(delta);
                        let text = ["24/7", "Mar-Oct 10:00-18:00", "Jan-Feb,Nov-Dec unknown; Jun off"][(j + rot) % 3];
                        let hol = HolSpec::None;
                        let Some((naive_oh, tz_oh)) = build_both(text, &hol, tz) else { continue };
                        rep.evaluations += 1;
                        rep.begin(&format!("sweep-k {text} | {tz} | {i_utc}"));
                        match check(&naive_oh, &tz_oh, tz, i_utc, &[], Duration::days(*k + 2), &mut st) {
                            Ok(()) => rep.count("sweep_days_before_transition_checks_passed"),
                            Err(msg) => {
                                let ast = lib_parse(text).unwrap();
                                report_failure(args, rep, &ast, &hol, tz, i_utc, &[], Duration::days(*k + 2), &msg);
                                if rep.full() {
                                    break 'sweep;
                                }
                            }
                        }
                    }
                }
            }
            rep.count("sweep_zones");
            if any {
                rep.count("sweep_zones_with_transitions");
            }
        }
    }
    for k in 0..n {
        let mut cfg = GenCfg::standard(args.thorough()).rotated(k);
        cfg.max_rules = 3;
        let mut r = Rng::new(args.seed, args.worker, k);
        let mut ast = expr::gen_expr(&mut r, &cfg);
        let tz: Tz = if r.chance(75) { parse_tz(*r.pick(&ZONES[..])) } else { chrono_tz::TZ_VARIANTS[r.below(chrono_tz::TZ_VARIANTS.len() as u64) as usize] };
        let year = match r.below(10) {
            0 => r.range(1900, 1969) as i32,
            1 => r.range(2038, 2100) as i32,
            _ => r.range(1970, 2037) as i32,
        };
        let mut trs = transitions(tz, year, &mut cache);
        let mut year = year;
        for _ in 0..3 {
            if !trs.is_empty() {
                break;
            }
            year = r.range(1975, 2022) as i32;
            trs = transitions(tz, year, &mut cache);
        }
        let near = !trs.is_empty() && r.chance(75);
        let i_utc = if near {
            let tr = *r.pick(&trs);
            if r.chance(60) {
                let extra = transition_rule(&mut r, tz, &tr);
                if ast.rules.len() >= 3 {
                    ast.rules.pop();
                }
                ast.rules.push(extra);
            }
            let delta = match r.below(4) {
                0 => r.range(-90, 90) * 60,
                1 => r.range(-48 * 60, 48 * 60) * 60,
                2 => *r.pick(&[-60i64, -1, 0, 1, 59, 60, -3600, 3599, 3600, -3601]),
                _ => r.range(-7200, 7200),
            };
            (tr.0 + Duration::seconds(delta)).with_nanosecond(0).unwrap()
        } else {
            NaiveDate::from_yo_opt(year, 1 + r.below(365) as u32).unwrap().and_hms_opt(r.below(24) as u32, r.below(60) as u32, *r.pick(&[0u32, 0, 30])).unwrap()
        };
        let text = render::plain(&ast);
        if !denotable(&ast) {
            rep.count("skipped_not_denotable");
            continue;
        }
        let hol = crate::gen::ctx::gen_holspec_for(&mut r, has_holiday_selector(&ast));
        let Some((naive_oh, tz_oh)) = build_both(&text, &hol, tz) else { continue };
        let others: Vec<Tz> = (0..3).map(|_| if r.chance(50) { parse_tz(*r.pick(&ZONES[..])) } else { chrono_tz::TZ_VARIANTS[r.below(chrono_tz::TZ_VARIANTS.len() as u64) as usize] }).collect();
        let span = Duration::minutes(r.range(1, 4 * 1440));
        rep.evaluations += 1;
        rep.begin(&format!("{text} | {} | {tz} | {i_utc}", hol.to_string()));
        rep.count(if near { "instants_near_transition" } else { "instants_elsewhere" });
        if near {
            rep.count(&format!("zone.{}", tz.name()));
        }
        match check(&naive_oh, &tz_oh, tz, i_utc, &others, span, &mut st) {
            Ok(()) => {
                rep.count("instants_checked");
                rep.nontrivial(crate::rng::hash64(&format!("{ast:?}|{tz}|{i_utc}")));
                if k < 3 {
                    rep.sample(|| json!({"expr": text, "zone": tz.name(), "instant_utc": i_utc.to_string(), "near_transition": near, "state": tz_oh.state(tz.from_utc_datetime(&i_utc)).to_string()}));
                }
            }
            Err(msg) => {
                report_failure(args, rep, &ast, &hol, tz, i_utc, &others, span, &msg);
                if rep.full() {
                    break;
                }
            }
        }
    }
    rep.add("mapped_unique", st.unique);
    rep.add("mapped_ambiguous", st.ambiguous);
    rep.add("mapped_nonexistent", st.nonexistent);
    rep.add("intervals_compared", st.intervals);
    rep.add("next_change_cut_by_step_budget", st.budget_cut);
    // fold the per-zone counters into a count of distinct zones exercised near a transition
    let zones: Vec<String> = rep.counters.keys().filter(|k| k.starts_with("zone.")).cloned().collect();
    rep.add("zones_with_transition_exercised_by_this_worker", zones.len() as u64);
    rep.require("instants_checked", 10_000);
    rep.require("mapped_ambiguous", 500);
    rep.require("mapped_nonexistent", 500);
    rep.require("instants_near_transition", 5_000);
}

pub fn replay(args: &Args, case: &Value, rep: &mut Report) {
    let text = case_expr(case);
    let hol = case_hol(case);
    let tz = parse_tz(case["zone"].as_str().unwrap_or("UTC"));
    let Some(i_utc) = case["instant_utc"].as_str().and_then(|s| NaiveDateTime::parse_from_str(s, "%Y-%m-%d %H:%M:%S%.f").ok()) else {
        rep.violation("bad_replay", "replay without instant_utc".into(), case.clone(), None);
        return;
    };
    if let Some(w) = case["input_zone_sweep"].as_str() {
        rep.evaluations += 1;
        if let Err(msg) = check_input_pair(&text, tz, parse_tz(w), i_utc) {
            rep.violation("input_zone", format!("{text:?} in zone {tz}: {msg}"), case.clone(), None);
        }
        return;
    }
    let zones: Vec<Tz> = case["input_zones"].as_array().map(|a| a.iter().filter_map(|v| v.as_str()).map(parse_tz).collect()).unwrap_or_default();
    let span = Duration::minutes(case["span_minutes"].as_i64().unwrap_or(1440));
    rep.evaluations += 1;
    let Some((n, z)) = build_both(&text, &hol, tz) else {
        rep.violation("witness_rejected", format!("{text:?} does not parse"), case.clone(), None);
        return;
    };
    let mut st = MapStats::default();
    if let Err(msg) = check(&n, &z, tz, i_utc, &zones, span, &mut st) {
        let known = lib_parse(&text).ok().and_then(|a| known::explained_by(&args.known, &a));
        rep.violation("timezone_mapping", format!("{text:?} [{}] zone {tz}: {msg}", hol.to_string()), case.clone(), known);
    }
}

#[allow(dead_code)]
fn _u(_: Utc) {}
