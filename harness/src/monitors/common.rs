//! Shared pieces of the expression-driven monitors.

use crate::gen::ctx::HolSpec;
use crate::gen::expr::{self, GenCfg};
use crate::out::{guarded, Args, Report};
use crate::render::{self, Variants};
use crate::rng::Rng;
use opening_hours_syntax::rules::day::WeekDayRange;
use opening_hours_syntax::rules::OpeningHoursExpression;
use serde_json::{json, Value};

/// Parse with the library, turning a panic into an error string.
pub fn lib_parse(s: &str) -> Result<OpeningHoursExpression, String> {
    match guarded(|| opening_hours_syntax::parse(s)) {
        Ok(Ok(e)) => Ok(e),
        Ok(Err(e)) => Err(format!("parse error: {}", e.to_string().replace('\n', " | "))),
        Err(p) => Err(format!("parse panicked: {p}")),
    }
}

/// The grammar can denote this AST faithfully: its plain rendering parses back to it.
pub fn denotable(e: &OpeningHoursExpression) -> bool {
    !e.rules.is_empty() && lib_parse(&render::plain(e)).map(|p| p == *e).unwrap_or(false)
}

pub fn has_holiday_selector(e: &OpeningHoursExpression) -> bool {
    e.rules.iter().any(|r| r.day_selector.weekday.iter().any(|w| matches!(w, WeekDayRange::Holiday { .. })))
}

pub struct GenCase {
    pub ast: OpeningHoursExpression,
    pub text: String,
    pub hol: HolSpec,
    pub rng: Rng,
}

/// Generate case `k` of this worker: expression, one of its spellings, a holiday context.
pub fn gen_case(args: &Args, k: u64, cfg: &GenCfg, rep: &mut Report) -> GenCase {
    let mut r = Rng::new(args.seed, args.worker, k);
    let ast = expr::gen_expr(&mut r, cfg);
    let mut v = Variants::random(Rng::new(args.seed ^ 0x7e57, args.worker, k));
    let text = render::expr(&mut v, &ast);
    for (knob, n) in v.used {
        rep.add(&format!("variant.{knob}"), n);
    }
    let hol = crate::gen::ctx::gen_holspec_for(&mut r, has_holiday_selector(&ast));
    GenCase { ast, text, hol, rng: r }
}

pub fn coverage_of(ast: &OpeningHoursExpression, rep: &mut Report) {
    for rule in &ast.rules {
        let kinds = expr::rule_selector_kinds(rule);
        for k in &kinds {
            let key = if kinds.len() == 1 { format!("sel.{}.alone", expr::sel_name(*k)) } else { format!("sel.{}.mixed", expr::sel_name(*k)) };
            rep.count(&key);
        }
        rep.count(&format!("op.{:?}", rule.operator));
        rep.count(&format!("kind.{}", rule.kind));
    }
}

pub fn case_json(text: &str, hol: &HolSpec) -> Value {
    json!({"expr": text, "holidays": hol.to_string()})
}

pub fn case_expr(case: &Value) -> String {
    case["expr"].as_str().unwrap_or("").to_string()
}

pub fn case_hol(case: &Value) -> HolSpec {
    HolSpec::parse(case["holidays"].as_str().unwrap_or("none"))
}

/// Real-world shapes: the 204 lines of the suite's sample file and every string literal of the
/// repository's test sources that parses. They are only *parsed* by the suite (sample) or
/// evaluated on one date (tests); here they feed the same oracles as generated expressions.
pub fn corpus() -> Vec<String> {
    let root = super::c10::repo_root();
    let mut out: Vec<String> = Vec::new();
    if let Ok(t) = std::fs::read_to_string(format!("{root}/opening-hours/src/tests/data/sample.txt")) {
        out.extend(t.lines().map(|l| l.to_string()));
    }
    let mut files: Vec<std::path::PathBuf> = Vec::new();
    for dir in ["opening-hours/src/tests", "opening-hours-syntax/src/tests", "opening-hours-py/src/tests", "fuzz/src"] {
        if let Ok(rd) = std::fs::read_dir(format!("{root}/{dir}")) {
            files.extend(rd.flatten().map(|e| e.path()).filter(|p| p.extension().map(|x| x == "rs").unwrap_or(false)));
        }
    }
    files.push(format!("{root}/README.md").into());
    files.push(format!("{root}/opening-hours/src/opening_hours.rs").into());
    files.sort();
    for f in files {
        let Ok(text) = std::fs::read_to_string(&f) else { continue };
        // crude extraction of "..." and r#"..."# literals
        let bytes: Vec<char> = text.chars().collect();
        let mut i = 0;
        while i < bytes.len() {
            if bytes[i] == '"' {
                let raw = i >= 2 && bytes[i - 1] == '#' && bytes[i - 2] == 'r';
                let mut j = i + 1;
                let mut lit = String::new();
                while j < bytes.len() {
                    if raw {
                        if bytes[j] == '"' && j + 1 < bytes.len() && bytes[j + 1] == '#' {
                            break;
                        }
                    } else if bytes[j] == '\\' && j + 1 < bytes.len() {
                        if bytes[j + 1] == '"' {
                            lit.push('"');
                        }
                        j += 2;
                        continue;
                    } else if bytes[j] == '"' {
                        break;
                    }
                    lit.push(bytes[j]);
                    j += 1;
                }
                if lit.len() >= 2 && lit.len() < 300 && !lit.contains('\n') {
                    out.push(lit);
                }
                i = j + 1;
            } else {
                i += 1;
            }
        }
    }
    out.sort();
    out.dedup();
    out.retain(|s| lib_parse(s).is_ok());
    out
}

/// Every value of every atomic field of the grammar (years, weeks, months, days of month, weekdays
/// and nth positions, clock times up to 48:00, repeats, event offsets, day offsets, steps), one
/// field per one-rule expression. Shared by C05 (parse), C06 (print), C07/C13 (normalize).
pub fn atomic_asts() -> Vec<OpeningHoursExpression> {
    use chrono::Duration;
    use crate::gen::expr::{et, EVENTS, MONTHS, WEEKDAYS};
    use opening_hours_syntax::rules::day::*;
    use opening_hours_syntax::rules::time::*;
    use opening_hours_syntax::rules::{RuleKind, RuleOperator, RuleSequence};
    let rule = |ds: DaySelector, ts: Vec<TimeSpan>| OpeningHoursExpression {
        rules: vec![RuleSequence { day_selector: ds, time_selector: TimeSelector { time: ts }, kind: RuleKind::Open, operator: RuleOperator::Normal, comments: Default::default() }],
    };
    let span = |a: ExtendedTimeAlias, b: ExtendedTimeAlias| TimeSpan { range: Time::Fixed(a)..Time::Fixed(b), open_end: false, repeats: None };
    let hours = vec![span(et(10, 0), et(12, 0))];
    // (a rule without hours is built by the parser with the whole-day span)
    let full = vec![span(et(0, 0), et(24, 0))];
    let mut all: Vec<OpeningHoursExpression> = Vec::new();
    // years: single, open-ended, range from 1900, range to 9999; steps
    for y in 1900..=9999u16 {
        all.push(rule(DaySelector { year: vec![YearRange { range: Year(y)..=Year(y), step: 1 }], ..Default::default() }, full.clone()));
        all.push(rule(DaySelector { year: vec![YearRange { range: Year(y)..=Year(9999), step: 1 }], ..Default::default() }, hours.clone()));
        if y > 1900 {
            all.push(rule(DaySelector { year: vec![YearRange { range: Year(1900)..=Year(y), step: 1 }], ..Default::default() }, full.clone()));
        }
    }
    for step in 2..=65535u16 {
        all.push(rule(DaySelector { year: vec![YearRange { range: Year(1950)..=Year(9000), step }], ..Default::default() }, if step % 2 == 0 { full.clone() } else { hours.clone() }));
    }
    // weeks: every pair, every step
    for a in 1..=53u8 {
        for b in 1..=53u8 {
            all.push(rule(DaySelector { week: vec![WeekRange { range: WeekNum(a)..=WeekNum(b), step: 1 }], ..Default::default() }, if (a + b) % 2 == 0 { full.clone() } else { hours.clone() }));
        }
    }
    for step in 2..=255u8 {
        all.push(rule(DaySelector { week: vec![WeekRange { range: WeekNum(2)..=WeekNum(50), step }], ..Default::default() }, full.clone()));
    }
    // months: every pair, with and without a year; every day of every month, alone and as range ends
    for (i, a) in MONTHS.iter().enumerate() {
        for (j, b) in MONTHS.iter().enumerate() {
            all.push(rule(DaySelector { monthday: vec![MonthdayRange::Month { range: *a..=*b, year: None }], ..Default::default() }, full.clone()));
            all.push(rule(DaySelector { monthday: vec![MonthdayRange::Month { range: *a..=*b, year: Some(1900 + (i * 12 + j) as u16 * 56) }], ..Default::default() }, hours.clone()));
        }
        for day in 1..=31u8 {
            let d = Date::Fixed { year: None, month: *a, day };
            let dy = Date::Fixed { year: Some(2000 + day as u16), month: *a, day };
            let none = DateOffset::default();
            all.push(rule(DaySelector { monthday: vec![MonthdayRange::Date { start: (d, none), end: (d, none) }], ..Default::default() }, full.clone()));
            all.push(rule(DaySelector { monthday: vec![MonthdayRange::Date { start: (dy, none), end: (dy, none) }], ..Default::default() }, full.clone()));
            for b in [MONTHS[(i + 1) % 12], MONTHS[(i + 6) % 12], *a] {
                for day2 in [1u8, 15, 28, 31, day] {
                    let e = Date::Fixed { year: None, month: b, day: day2 };
                    if e != d {
                        all.push(rule(DaySelector { monthday: vec![MonthdayRange::Date { start: (d, none), end: (e, none) }], ..Default::default() }, full.clone()));
                    }
                    // dated start, end in the same or in the next year
                    for y2 in [2000 + day as u16, 2001 + day as u16] {
                        let e = Date::Fixed { year: Some(y2), month: b, day: day2 };
                        if e != dy {
                            all.push(rule(DaySelector { monthday: vec![MonthdayRange::Date { start: (dy, none), end: (e, none) }], ..Default::default() }, full.clone()));
                        }
                    }
                }
            }
        }
    }
    // day offsets and weekday offsets of dates
    for n in (-400..=400i64).filter(|n| *n != 0) {
        let d = Date::Fixed { year: None, month: Month::May, day: 17 };
        let o = DateOffset { wday_offset: WeekDayOffset::None, day_offset: n };
        all.push(rule(DaySelector { monthday: vec![MonthdayRange::Date { start: (d, o), end: (d, o) }], ..Default::default() }, full.clone()));
        let e = Date::Easter { year: if n % 2 == 0 { None } else { Some(2024) } };
        all.push(rule(DaySelector { monthday: vec![MonthdayRange::Date { start: (e, o), end: (e, o) }], ..Default::default() }, full.clone()));
    }
    for wd in WEEKDAYS {
        for o in [WeekDayOffset::Next(wd), WeekDayOffset::Prev(wd)] {
            let d = Date::Fixed { year: None, month: Month::October, day: 3 };
            let o = DateOffset { wday_offset: o, day_offset: 0 };
            all.push(rule(DaySelector { monthday: vec![MonthdayRange::Date { start: (d, o), end: (d, o) }], ..Default::default() }, full.clone()));
        }
    }
    // weekdays: every pair; every non-empty set of nth positions; offsets
    for a in WEEKDAYS {
        for b in WEEKDAYS {
            all.push(rule(DaySelector { weekday: vec![WeekDayRange::Fixed { range: a..=b, offset: 0, nth_from_start: [true; 5], nth_from_end: [true; 5] }], ..Default::default() }, hours.clone()));
        }
        for bits in 1..1023u32 {
            let mut s = [false; 5];
            let mut e = [false; 5];
            for k in 0..5 {
                s[k] = bits & (1 << k) != 0;
                e[k] = bits & (1 << (5 + k)) != 0;
            }
            let offset = match bits % 7 {
                0 => 1,
                1 => -1,
                2 => (bits as i64 % 40) + 2,
                3 => -((bits as i64 % 40) + 2),
                _ => 0,
            };
            all.push(rule(DaySelector { weekday: vec![WeekDayRange::Fixed { range: a..=a, offset, nth_from_start: s, nth_from_end: e }], ..Default::default() }, full.clone()));
        }
    }
    // (the grammar gives a day offset to PH only)
    all.push(rule(DaySelector { weekday: vec![WeekDayRange::Holiday { kind: HolidayKind::School, offset: 0 }], ..Default::default() }, full.clone()));
    for offset in -400..=400i64 {
        all.push(rule(DaySelector { weekday: vec![WeekDayRange::Holiday { kind: HolidayKind::Public, offset }], ..Default::default() }, full.clone()));
    }
    // clock times: every minute as a start, every minute up to 48:00 as an end; open ends; repeats
    for m in 0..=1440u16 {
        all.push(rule(Default::default(), vec![span(et((m / 60) as u8, (m % 60) as u8), et(48, 0))]));
        all.push(rule(Default::default(), vec![TimeSpan { range: Time::Fixed(et((m / 60) as u8, (m % 60) as u8))..Time::Fixed(ExtendedTime::MIDNIGHT_24), open_end: true, repeats: None }]));
    }
    for m in 1..=2880u16 {
        all.push(rule(Default::default(), vec![span(et(0, 0), et((m / 60) as u8, (m % 60) as u8))]));
    }
    for m in 1..=1440i64 {
        all.push(rule(Default::default(), vec![TimeSpan { range: Time::Fixed(et(1, 0))..Time::Fixed(et(30, 0)), open_end: false, repeats: Some(Duration::minutes(m)) }]));
    }
    // event offsets: every minute within a day in both directions, at both ends of a span
    for ev in EVENTS {
        for off in -1440..=1440i16 {
            let v = Time::Variable(VariableTime { event: ev, offset: off });
            if off % 2 == 0 {
                all.push(rule(Default::default(), vec![TimeSpan { range: v..Time::Fixed(et(26, 30)), open_end: false, repeats: None }]));
            } else {
                all.push(rule(Default::default(), vec![TimeSpan { range: Time::Fixed(et(0, 30))..v, open_end: false, repeats: None }]));
            }
        }
    }
    all
}

type ExtendedTimeAlias = opening_hours_syntax::ExtendedTime;
use opening_hours_syntax::ExtendedTime;

/// Combination grid for normalization: pairs of rules, each restricting at most two of the five
/// dimensions (year, month, week, weekday, time) to a plain or wrapping range, joined by each of the
/// three separators with each kind; and triples of rules cutting ONE dimension at many points.
/// `part` rotates thirds of the pairs in the quick tier.
pub fn normalize_grid(all: bool, part: u64) -> Vec<String> {
    let dims: [&[&str]; 5] = [
        &["2020-2024", "2022-2030", "2024", "1900-2021"],
        &["Jan-Mar", "Mar-Jun", "Nov-Feb", "Dec", "Jun"],
        &["week 01-10", "week 10-20", "week 50-03", "week 53"],
        &["Mo-We", "We-Fr", "Fr-Mo", "Sa-Su", "Tu"],
        &["00:00-12:00", "12:00-24:00", "10:00-14:00", "22:00-02:00", "00:00-24:00"],
    ];
    // shapes: at most two restricted dimensions
    let mut shapes: Vec<String> = vec!["24/7".to_string()];
    for (i, di) in dims.iter().enumerate() {
        for a in di.iter() {
            shapes.push(a.to_string());
            for (j, dj) in dims.iter().enumerate().skip(i + 1) {
                for b in dj.iter() {
                    // the grammar wants a month directly after a year
                    shapes.push(if i == 0 && j == 1 { format!("{a}{b}") } else { format!("{a} {b}") });
                }
            }
        }
    }
    let seps = [" ; ", ", ", " || "];
    let kinds = ["", " off", " unknown"];
    let mut v = Vec::new();
    let mut pair = 0u64;
    for a in &shapes {
        for b in &shapes {
            pair += 1;
            for (si, sep) in seps.iter().enumerate() {
                for (ki, kind) in kinds.iter().enumerate() {
                    // quick: each (a, b) with three of the nine separator x kind combinations, rotating
                    if all || (pair + (si * 3 + ki) as u64) % 3 == part % 3 {
                        v.push(format!("{a}{sep}{b}{kind}"));
                    }
                }
            }
        }
    }
    // restatement triples: A, then a rule B sharing a selector with A (same days, other hours / same
    // hours, other days ...), then A or B restated exactly - with every pair of separators and a
    // rotating kind (a memo keyed on "the same selector as before" must be invalidated by B)
    {
        let tokens = |s: &str| -> Vec<String> { s.split(' ').map(|t| t.to_string()).collect() };
        let mut triple = 0u64;
        for a in shapes.iter().skip(1) {
            let ta = tokens(a);
            for b in shapes.iter().skip(1) {
                if a == b || !tokens(b).iter().any(|t| ta.contains(t)) {
                    continue;
                }
                // quick: A restated, 1/8 of the separator x kind combinations (rotating); thorough: A or
                // B restated, all 162 combinations
                for (zi, z) in [a, b].into_iter().enumerate() {
                    if !all && zi == 1 {
                        continue;
                    }
                    for sep1 in seps {
                        for sep2 in seps {
                            for k1 in kinds {
                                for k2 in kinds {
                                    triple += 1;
                                    if !all && (k2 == " off" || triple % 8 != part % 8) {
                                        continue;
                                    }
                                    v.push(format!("{a}{sep1}{b}{k1}{sep2}{z}{k2}"));
                                }
                            }
                        }
                    }
                }
            }
        }
    }
    // comment collisions: two canonical rules that touch along one dimension (or are equal), each
    // with one of seven comment forms - none, one comment, a comment that contains ", ", the SAME
    // text written as two comments (prefix comment + modifier comment, both orders), and near misses:
    // normalization compares comment sets, printing joins them with ", "
    {
        let pairs = [("Mo", "Tu"), ("Jan", "Feb"), ("week 01", "week 02"), ("2020", "2021"), ("Mo 10:00-12:00", "Mo 12:00-14:00"), ("Mo", "Mo")];
        let with_comment = |sel: &str, kind: &str, form: usize| -> String {
            let hours = if sel.contains(':') { "" } else { " 10:00-12:00" };
            match form {
                0 => format!("{sel}{hours}{kind}"),
                1 => format!("{sel}{hours}{kind} \"a\""),
                2 => format!("{sel}{hours}{kind} \"a, b\""),
                3 => format!("\"b\":{sel}{hours}{kind} \"a\""),
                4 => format!("\"a\":{sel}{hours}{kind} \"b\""),
                5 => format!("{sel}{hours}{kind} \"b, a\""),
                _ => format!("{sel}{hours}{kind} \"a,b\""),
            }
        };
        let mut n = 0u64;
        for (a, b) in pairs {
            for fa in 0..7 {
                for fb in 0..7 {
                    for sep in seps {
                        for kind in ["", " unknown", " off"] {
                            n += 1;
                            if !all && n % 2 != part % 2 {
                                continue;
                            }
                            v.push(format!("{}{sep}{}", with_comment(a, kind, fa), with_comment(b, kind, fb)));
                        }
                    }
                }
            }
        }
    }
    // triples along one dimension, more cut points
    let fine: [&[&str]; 5] = [
        &["2019-2021", "2020-2024", "2021", "2022-2030", "2024-2026", "2025", "1900-2022", "2023-9999"],
        &["Jan-Mar", "Feb-Apr", "Mar-Jun", "Jun", "May-Sep", "Sep-Dec", "Nov-Feb", "Dec-Jan"],
        &["week 01-10", "week 05-15", "week 10-20", "week 15", "week 20-40", "week 40-53", "week 50-03", "week 53-01"],
        &["Mo-We", "Tu-Th", "We-Fr", "Fr", "Fr-Mo", "Sa-Su", "Su-Tu", "Th-Sa"],
        &["00:00-12:00", "06:00-10:00", "10:00-14:00", "12:00-24:00", "13:00-13:30", "18:00-26:00", "22:00-02:00", "23:00-24:00"],
    ];
    for d in fine.iter() {
        for (i, a) in d.iter().enumerate() {
            for (j, b) in d.iter().enumerate() {
                for (l, c) in d.iter().enumerate() {
                    if !all && (i + 2 * j + 3 * l) as u64 % 3 != part % 3 {
                        continue;
                    }
                    let s1 = seps[(i + j) % 3];
                    let s2 = seps[(j + l + 1) % 3];
                    v.push(format!("{a}{s1}{b}{}{s2}{c}{}", kinds[(i + l) % 3], kinds[(j + 2 * l) % 3]));
                }
            }
        }
    }
    v
}
