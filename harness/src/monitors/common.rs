//! Shared pieces of the expression-driven monitors.

use crate::gen::ctx::HolSpec;
use crate::gen::expr::{self, GenCfg};
use crate::out::{guarded, Args, Report};
use crate::render::{self, Variants};
use crate::rng::Rng;
use opening_hours_syntax::rules::day::WeekDayRange;
use opening_hours_syntax::rules::OpeningHoursExpression;
use serde_json::{json, Value};

/// Parse with the library, turning a panic into an error string.
pub fn lib_parse(s: &str) -> Result<OpeningHoursExpression, String> {
    match guarded(|| opening_hours_syntax::parse(s)) {
        Ok(Ok(e)) => Ok(e),
        Ok(Err(e)) => Err(format!("parse error: {}", e.to_string().replace('\n', " | "))),
        Err(p) => Err(format!("parse panicked: {p}")),
    }
}

/// The grammar can denote this AST faithfully: its plain rendering parses back to it.
pub fn denotable(e: &OpeningHoursExpression) -> bool {
    !e.rules.is_empty() && lib_parse(&render::plain(e)).map(|p| p == *e).unwrap_or(false)
}

pub fn has_holiday_selector(e: &OpeningHoursExpression) -> bool {
    e.rules.iter().any(|r| r.day_selector.weekday.iter().any(|w| matches!(w, WeekDayRange::Holiday { .. })))
}

pub struct GenCase {
    pub ast: OpeningHoursExpression,
    pub text: String,
    pub hol: HolSpec,
    pub rng: Rng,
}

/// Generate case `k` of this worker: expression, one of its spellings, a holiday context.
pub fn gen_case(args: &Args, k: u64, cfg: &GenCfg, rep: &mut Report) -> GenCase {
    let mut r = Rng::new(args.seed, args.worker, k);
    let ast = expr::gen_expr(&mut r, cfg);
    let mut v = Variants::random(Rng::new(args.seed ^ 0x7e57, args.worker, k));
    let text = render::expr(&mut v, &ast);
    for (knob, n) in v.used {
        rep.add(&format!("variant.{knob}"), n);
    }
    let hol = crate::gen::ctx::gen_holspec_for(&mut r, has_holiday_selector(&ast));
    GenCase { ast, text, hol, rng: r }
}

pub fn coverage_of(ast: &OpeningHoursExpression, rep: &mut Report) {
    for rule in &ast.rules {
        let kinds = expr::rule_selector_kinds(rule);
        for k in &kinds {
            let key = if kinds.len() == 1 { format!("sel.{}.alone", expr::sel_name(*k)) } else { format!("sel.{}.mixed", expr::sel_name(*k)) };
            rep.count(&key);
        }
        rep.count(&format!("op.{:?}", rule.operator));
        rep.count(&format!("kind.{}", rule.kind));
    }
}

pub fn case_json(text: &str, hol: &HolSpec) -> Value {
    json!({"expr": text, "holidays": hol.to_string()})
}

pub fn case_expr(case: &Value) -> String {
    case["expr"].as_str().unwrap_or("").to_string()
}

pub fn case_hol(case: &Value) -> HolSpec {
    HolSpec::parse(case["holidays"].as_str().unwrap_or("none"))
}

/// Real-world shapes: the 204 lines of the suite's sample file and every string literal of the
/// repository's test sources that parses. They are only *parsed* by the suite (sample) or
/// evaluated on one date (tests); here they feed the same oracles as generated expressions.
pub fn corpus() -> Vec<String> {
    let root = super::c10::repo_root();
    let mut out: Vec<String> = Vec::new();
    if let Ok(t) = std::fs::read_to_string(format!("{root}/opening-hours/src/tests/data/sample.txt")) {
        out.extend(t.lines().map(|l| l.to_string()));
    }
    let mut files: Vec<std::path::PathBuf> = Vec::new();
    for dir in ["opening-hours/src/tests", "opening-hours-syntax/src/tests", "opening-hours-py/src/tests", "fuzz/src"] {
        if let Ok(rd) = std::fs::read_dir(format!("{root}/{dir}")) {
            files.extend(rd.flatten().map(|e| e.path()).filter(|p| p.extension().map(|x| x == "rs").unwrap_or(false)));
        }
    }
    files.push(format!("{root}/README.md").into());
    files.push(format!("{root}/opening-hours/src/opening_hours.rs").into());
    files.sort();
    for f in files {
        let Ok(text) = std::fs::read_to_string(&f) else { continue };
        // crude extraction of "..." and r#"..."# literals
        let bytes: Vec<char> = text.chars().collect();
        let mut i = 0;
        while i < bytes.len() {
            if bytes[i] == '"' {
                let raw = i >= 2 && bytes[i - 1] == '#' && bytes[i - 2] == 'r';
                let mut j = i + 1;
                let mut lit = String::new();
                while j < bytes.len() {
                    if raw {
                        if bytes[j] == '"' && j + 1 < bytes.len() && bytes[j + 1] == '#' {
                            break;
                        }
                    } else if bytes[j] == '\\' && j + 1 < bytes.len() {
                        if bytes[j + 1] == '"' {
                            lit.push('"');
                        }
                        j += 2;
                        continue;
                    } else if bytes[j] == '"' {
                        break;
                    }
                    lit.push(bytes[j]);
                    j += 1;
                }
                if lit.len() >= 2 && lit.len() < 300 && !lit.contains('\n') {
                    out.push(lit);
                }
                i = j + 1;
            } else {
                i += 1;
            }
        }
    }
    out.sort();
    out.dedup();
    out.retain(|s| lib_parse(s).is_ok());
    out
}
