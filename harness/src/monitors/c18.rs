//! C18 — Evaluation is pure: same answer across calls, clones and threads (incl. first use of the
//! lazily decoded tables).
//!
//! Modes (selected with --extra mode=...):
//!   reference  evaluate the case list sequentially, write the answers (one process)
//!   threads    fresh process: T threads on a barrier race the first use of the lazy tables and
//!              walk permutations of the cases on shared values, clones and fresh parses;
//!              answers are compared with the reference (--extra ref=FILE)
//!   small      reduced in-process variant (reference + threads in one process) for Miri / TSan smoke

use super::common::*;
use crate::gen::ctx::HolSpec;
use crate::gen::expr::{self, GenCfg};
use crate::out::{guarded, Args, Report};
use crate::render;
use crate::rng::Rng;
use crate::stream;
use chrono::{Duration, NaiveDate, NaiveDateTime, TimeZone};
use chrono_tz::Tz;
use opening_hours::localization::{Coordinates, Country, Localize, TzLocation};
use opening_hours::verif_hooks as hooks;
use opening_hours::{Context, OpeningHours};
use serde_json::{json, Value};
use std::sync::atomic::Ordering;
use std::sync::{Arc, Barrier};

#[derive(Clone, Debug)]
pub enum CtxKind {
    None,
    Synthetic(String),
    Country(String),
    Zone(String),
    Coords(f64, f64),
    /// explicit zone + coordinates (the zone is NOT the one of the place)
    ZoneCoords(String, f64, f64),
}

#[derive(Clone, Debug)]
pub struct Case {
    pub id: usize,
    pub text: String,
    pub ctx: CtxKind,
    pub t: NaiveDateTime,
}

const SITES: [(f64, f64); 8] = [(48.8566, 2.3522), (40.7128, -74.0060), (35.6762, 139.6503), (-33.8688, 151.2093), (51.5074, -0.1278), (19.4326, -99.1332), (55.7558, 37.6173), (-23.5505, -46.6333)];

pub fn gen_cases(seed: u64, n: usize, allow_tz_lazies: bool) -> Vec<Case> {
    let mut out = Vec::new();
    let mut k = 0u64;
    while out.len() < n {
        k += 1;
        let mut r = Rng::new(seed, 0xc18, k);
        let mut cfg = GenCfg::standard(false).rotated(k);
        cfg.max_rules = 3;
        let ast = expr::gen_expr(&mut r, &cfg);
        if !denotable(&ast) {
            continue;
        }
        let mut text = render::plain(&ast);
        let ctx = match r.below(10) {
            0 | 1 => CtxKind::None,
            2 => CtxKind::Synthetic(r.pick(&crate::gen::ctx::SYNTHETIC).to_string()),
            3..=5 => CtxKind::Country(Country::ALL[r.below(Country::ALL.len() as u64) as usize].iso_code().to_string()),
            6 => CtxKind::Zone(super::c09::ZONES[r.below(super::c09::ZONES.len() as u64) as usize].to_string()),
            7 => {
                let s = r.pick(&SITES);
                CtxKind::ZoneCoords(super::c09::ZONES[r.below(super::c09::ZONES.len() as u64) as usize].to_string(), s.0, s.1)
            }
            _ => {
                if allow_tz_lazies {
                    let s = r.pick(&SITES);
                    CtxKind::Coords(s.0, s.1)
                } else {
                    CtxKind::Country("FR".into())
                }
            }
        };
        if matches!(ctx, CtxKind::Coords(..) | CtxKind::ZoneCoords(..)) {
            // make the answer depend on the sun events of the place
            text = format!("{text}, (sunrise-00:20)-(sunset+00:20) unknown");
        }
        let t = super::c03::gen_instant(&mut r, &ast).with_nanosecond_safe();
        out.push(Case { id: out.len(), text, ctx, t });
    }
    out
}

trait NoNanos {
    fn with_nanosecond_safe(self) -> Self;
}

impl NoNanos for NaiveDateTime {
    fn with_nanosecond_safe(self) -> Self {
        chrono::Timelike::with_nanosecond(&self, 0).unwrap_or(self)
    }
}

static LIGHT: std::sync::atomic::AtomicBool = std::sync::atomic::AtomicBool::new(false);

fn answers_naive(oh: &stream::Oh, t: NaiveDateTime) -> String {
    let state = oh.state(t);
    if LIGHT.load(Ordering::Relaxed) {
        // reduced answer for the interpreter (Miri): state and one daily schedule
        return format!("{state}|{}", fmt_sched(oh.schedule_at(t.date())));
    }
    let next = match stream::with_day_budget(3_000, || oh.next_change(t)) {
        Ok(Some(x)) => format!("{x:?}"),
        Ok(None) => "budget".to_string(),
        Err(p) => format!("panic:{p}"),
    };
    let ivs: Vec<String> = match stream::with_day_budget(3_000, || oh.iter_range(t, t + Duration::days(20)).take(16).map(|i| format!("{}..{} {} {:?}", i.range.start, i.range.end, i.kind, i.comments.as_slice())).collect::<Vec<_>>()) {
        Ok(Some(x)) => x,
        Ok(None) => vec!["budget".into()],
        Err(p) => vec![format!("panic:{p}")],
    };
    let scheds: Vec<String> = (0..3).map(|k| format!("{:?}", oh.schedule_at(t.date() + Duration::days(k * 13)).into_iter().map(|r| (r.range, r.kind, r.comments)).collect::<Vec<_>>())).collect();
    format!("{state}|{next}|{ivs:?}|{scheds:?}")
}

fn answers_zoned(oh: &OpeningHours<TzLocation<Tz>>, t: NaiveDateTime) -> String {
    let tz = oh_zone(oh);
    let i = tz.from_utc_datetime(&t);
    let state = oh.state(i.clone());
    if LIGHT.load(Ordering::Relaxed) {
        return format!("{tz}|{state}|{}", fmt_sched(oh.schedule_at(t.date())));
    }
    let next = match stream::with_day_budget(3_000, || oh.next_change(i.clone())) {
        Ok(Some(x)) => format!("{x:?}"),
        Ok(None) => "budget".to_string(),
        Err(p) => format!("panic:{p}"),
    };
    let ivs: Vec<String> = match stream::with_day_budget(3_000, || oh.iter_range(i.clone(), i.clone() + Duration::days(20)).take(16).map(|v| format!("{}..{} {} {:?}", v.range.start, v.range.end, v.kind, v.comments.as_slice())).collect::<Vec<_>>()) {
        Ok(Some(x)) => x,
        Ok(None) => vec!["budget".into()],
        Err(p) => vec![format!("panic:{p}")],
    };
    let scheds: Vec<String> = (0..3).map(|k| format!("{:?}", oh.schedule_at(t.date() + Duration::days(k * 13)).into_iter().map(|r| (r.range, r.kind, r.comments)).collect::<Vec<_>>())).collect();
    format!("{tz}|{state}|{next}|{ivs:?}|{scheds:?}")
}

thread_local! {
    static ZONE_OF: std::cell::RefCell<Option<Tz>> = const { std::cell::RefCell::new(None) };
}

fn oh_zone(_oh: &OpeningHours<TzLocation<Tz>>) -> Tz {
    ZONE_OF.with(|z| z.borrow().unwrap_or(chrono_tz::UTC))
}

/// Evaluate one case from scratch (fresh parse, fresh context): the "single sequential call".
pub fn eval_case(c: &Case) -> String {
    let r = guarded(|| {
        let oh = OpeningHours::parse(&c.text).expect("case must parse");
        match &c.ctx {
            CtxKind::None => answers_naive(&oh, c.t),
            CtxKind::Synthetic(s) => answers_naive(&oh.with_context(HolSpec::Synthetic(s.clone()).context()), c.t),
            CtxKind::Country(code) => {
                let hol = code.parse::<Country>().expect("country").holidays();
                let probe = NaiveDate::from_ymd_opt(2024, 1, 1).unwrap();
                let extra = format!("{}:{}:{:?}", hol.get_public().count(), hol.get_school().count(), hol.get_public().first_after(probe));
                format!("{extra}|{}", answers_naive(&oh.with_context(Context::default().with_holidays(hol)), c.t))
            }
            CtxKind::Zone(z) => {
                let tz: Tz = z.parse().unwrap();
                ZONE_OF.with(|x| *x.borrow_mut() = Some(tz));
                answers_zoned(&oh.with_context(Context::default().with_locale(TzLocation::new(tz))), c.t)
            }
            CtxKind::ZoneCoords(z, lat, lon) => {
                let tz: Tz = z.parse().unwrap();
                let coords = Coordinates::new(*lat, *lon).unwrap();
                ZONE_OF.with(|x| *x.borrow_mut() = Some(tz));
                answers_zoned(&oh.with_context(Context::default().with_locale(TzLocation::new(tz).with_coords(coords))), c.t)
            }
            CtxKind::Coords(lat, lon) => {
                let coords = Coordinates::new(*lat, *lon).unwrap();
                let ctx = Context::from_coords(coords);
                let tz = *ctx.locale.get_timezone();
                let country = Country::try_from_coords(coords).map(|c| c.iso_code());
                ZONE_OF.with(|x| *x.borrow_mut() = Some(tz));
                format!("{country:?}:{}|{}", ctx.holidays.get_public().count(), answers_zoned(&oh.with_context(ctx), c.t))
            }
        }
    });
    match r {
        Ok(s) => s,
        Err(p) => format!("PANIC {p}"),
    }
}

fn fmt_sched(s: opening_hours::schedule::Schedule) -> String {
    format!("{:?}", s.into_iter().map(|r| (r.range, r.kind, r.comments)).collect::<Vec<_>>())
}

/// Values derived from ONE parsed expression (`clone()` + `with_context`) share the expression;
/// evaluating them alternately on the same day must give what independently parsed values give
/// (a memo keyed on the shared expression but not on the context would be reused here).
fn shared_expression_probe(c: &Case, rep: &mut Report, seed: u64) {
    let day = c.t.date();
    // 1. holiday calendars and the interval-size bound
    let text = format!("{}; PH off; SH unknown \"shared\"", c.text);
    let Ok(Ok(base)) = guarded(|| OpeningHours::parse(&text)) else { return };
    let specs = [HolSpec::None, HolSpec::Synthetic("dense".into()), HolSpec::Country("FR".into()), HolSpec::Synthetic("runs".into())];
    let expected: Vec<(String, String)> = specs
        .iter()
        .map(|spec| {
            let (text, spec, t) = (text.clone(), spec.clone(), c.t);
            std::thread::spawn(move || {
                crate::out::install_quiet_panic_hook();
                let oh = OpeningHours::parse(&text).unwrap().with_context(spec.context());
                guarded(|| (fmt_sched(oh.schedule_at(t.date())), oh.state(t).to_string())).unwrap_or_else(|p| (format!("PANIC {p}"), String::new()))
            })
            .join()
            .unwrap_or_else(|_| ("PANIC".into(), String::new()))
        })
        .collect();
    let shared: Vec<stream::Oh> = specs.iter().map(|spec| base.clone().with_context(spec.context())).collect();
    let bounded: stream::Oh = base.clone().with_context(specs[1].context().approx_bound_interval_size(Duration::days(2)));
    let mut r = Rng::new(seed, 0x5a2ed, c.id as u64);
    for _ in 0..6 {
        let i = r.below(specs.len() as u64) as usize;
        let got = guarded(|| (fmt_sched(shared[i].schedule_at(day)), shared[i].state(c.t).to_string())).unwrap_or_else(|p| (format!("PANIC {p}"), String::new()));
        rep.count("shared_expression_probes");
        rep.evaluations += 1;
        if got != expected[i] {
            rep.violation("result_depends_on_history", format!("{text:?} at {}: a value sharing its parsed expression with values of other contexts (clone + with_context), evaluated alternately with them, gives with context [{}]:\n  got      {got:?}\n  expected {:?} (independently parsed value, fresh thread)", c.t, specs[i].to_string(), expected[i]), json!({"seed": seed, "case": c.id, "expr": text}), None);
            return;
        }
        if i == 1 {
            let got_b = guarded(|| fmt_sched(bounded.schedule_at(day))).unwrap_or_else(|p| format!("PANIC {p}"));
            if got_b != expected[1].0 {
                rep.violation("result_depends_on_history", format!("{text:?} at {}: the same value with an interval-size bound gives another daily schedule: {got_b} vs {}", c.t, expected[1].0), json!({"seed": seed, "case": c.id, "expr": text}), None);
                return;
            }
        }
    }
    // 2. places (sun events): two coordinate-inferred contexts sharing the expression
    let text = format!("{}, (sunrise-00:20)-(sunset+00:20) unknown", c.text);
    let Ok(Ok(base)) = guarded(|| OpeningHours::parse(&text)) else { return };
    let sites = [SITES[c.id % SITES.len()], SITES[(c.id + 3) % SITES.len()]];
    let expected: Vec<String> = sites
        .iter()
        .map(|s| {
            let (text, s) = (text.clone(), *s);
            std::thread::spawn(move || {
                crate::out::install_quiet_panic_hook();
                let oh = OpeningHours::parse(&text).unwrap().with_context(Context::from_coords(Coordinates::new(s.0, s.1).unwrap()));
                guarded(|| fmt_sched(oh.schedule_at(day))).unwrap_or_else(|p| format!("PANIC {p}"))
            })
            .join()
            .unwrap_or_else(|_| "PANIC".into())
        })
        .collect();
    let shared: Vec<_> = sites.iter().map(|s| base.clone().with_context(Context::from_coords(Coordinates::new(s.0, s.1).unwrap()))).collect();
    for k in 0..4 {
        let i = k % 2;
        let got = guarded(|| fmt_sched(shared[i].schedule_at(day))).unwrap_or_else(|p| format!("PANIC {p}"));
        rep.count("shared_expression_probes");
        if got != expected[i] {
            rep.violation("result_depends_on_history", format!("{text:?} on {day}: a value sharing its parsed expression with a value of another place, evaluated alternately, gives at {:?}:\n  got      {got}\n  expected {}", sites[i], expected[i]), json!({"seed": seed, "case": c.id, "expr": text}), None);
            return;
        }
    }
}

/// Adjacent-coordinates probe: a memo keyed on *rounded* coordinates is only visible between two
/// places that fall into the same rounding cell yet have different answers. Such pairs are found
/// by bisecting the latitude (every evaluation on a fresh thread) between two places whose daily
/// schedules differ, down to two adjacent f64 values. Then, on one thread, one place is evaluated
/// in one of 15 ways (schedule_at / state / two days of intervals, on day D-2..D+2) and the other
/// place's schedule of day D right after it, in both orders, and compared with the fresh-thread
/// answer: whatever the memo remembers last, one of the sequences ends on it.
fn adjacent_coordinates_probe(seed: u64, rep: &mut Report, searches: u64) {
    const EXPR: &str = "sunrise-sunset, (sunset+00:10)-(sunrise-00:10) unknown";
    fn build(lat: f64, lon: f64) -> OpeningHours<TzLocation<Tz>> {
        let c = Coordinates::new(lat, lon).expect("valid coordinates");
        OpeningHours::parse(EXPR).unwrap().with_context(Context::default().with_locale(TzLocation::new(chrono_tz::UTC).with_coords(c)))
    }
    // (place to evaluate first, how (0..15), relative day) then the unit under test: schedule_at(day) of `second`
    let run_seq = |first: Option<((f64, f64), u64)>, second: (f64, f64), day: NaiveDate| -> String {
        std::thread::spawn(move || {
            crate::out::install_quiet_panic_hook();
            guarded(|| {
                if let Some((place, how)) = first {
                    let oh = build(place.0, place.1);
                    let d = day + Duration::days(how as i64 % 5 - 2);
                    let noon = chrono_tz::UTC.from_utc_datetime(&d.and_hms_opt(12, 0, 0).unwrap());
                    match how / 5 {
                        0 => {
                            let _ = oh.schedule_at(d);
                        }
                        1 => {
                            let _ = oh.state(noon);
                        }
                        _ => {
                            let _ = oh.iter_range(noon.clone(), noon + Duration::days(2)).count();
                        }
                    }
                }
                fmt_sched(build(second.0, second.1).schedule_at(day))
            })
            .unwrap_or_else(|p| format!("PANIC {p}"))
        })
        .join()
        .unwrap_or_else(|_| "PANIC in thread".into())
    };
    for k in 0..searches {
        let mut r = Rng::new(seed, 0xad3ace, k);
        let site = SITES[r.below(SITES.len() as u64) as usize];
        let lon = site.1 + (r.f64() - 0.5) * 2.0;
        let day = NaiveDate::from_yo_opt(r.range(1990, 2060) as i32, 1 + r.below(365) as u32).unwrap();
        // 1 in 4 searches near the polar-day / polar-night threshold
        let (mut lo, mut hi) = if r.chance(25) { (60.0 + r.f64() * 5.0, 72.0 + r.f64() * 5.0) } else { (site.0 - 0.4 * r.f64(), site.0 + 0.3 + 0.4 * r.f64()) };
        let f = |lat: f64| run_seq(None, (lat, lon), day);
        let (flo, fhi) = (f(lo), f(hi));
        if flo == fhi {
            rep.count("adjacent_probe_no_difference_found");
            continue;
        }
        let mut steps = 0;
        loop {
            let mid = lo + (hi - lo) / 2.0;
            if mid <= lo || mid >= hi || steps > 80 {
                break;
            }
            if f(mid) == flo {
                lo = mid;
            } else {
                hi = mid;
            }
            steps += 1;
        }
        rep.count("adjacent_coordinate_pairs_probed");
        let (alone_lo, alone_hi) = (f(lo), f(hi));
        for how in 0..15u64 {
            for (first, second, expect) in [((lo, lon), (hi, lon), &alone_hi), ((hi, lon), (lo, lon), &alone_lo)] {
                rep.evaluations += 2;
                rep.count("adjacent_coordinate_sequences");
                let got = run_seq(Some((first, how)), second, day);
                if got != *expect {
                    let what = ["schedule_at", "state at noon", "two days of intervals"][(how / 5) as usize];
                    rep.violation(
                        "result_depends_on_history",
                        format!("{EXPR:?} [UTC]: schedule_at({day}) at ({:?}, {lon:?}) evaluated on one thread right after {what} on day {:+} at the adjacent place ({:?}, {lon:?}) gives\n  {got}\nbut alone on a fresh thread it gives\n  {expect}", second.0, how as i64 % 5 - 2, first.0),
                        json!({"seed": seed, "adjacent_probe": k}),
                        None,
                    );
                    return;
                }
            }
        }
    }
}

fn extra<'a>(args: &'a Args, key: &str) -> Option<&'a str> {
    args.extra.iter().find_map(|e| e.strip_prefix(&format!("{key}=")))
}

pub fn reference(args: &Args, rep: &mut Report, n: usize, allow_tz: bool) -> Vec<String> {
    let cases = gen_cases(args.seed, n, allow_tz);
    let mut answers = Vec::new();
    for c in &cases {
        rep.evaluations += 1;
        let a = eval_case(c);
        // repeated call and evaluation interleaved with another expression on the same thread
        let other = &cases[(c.id * 7 + 3) % cases.len()];
        let _ = eval_case(other);
        let b = eval_case(c);
        if a != b {
            rep.violation("repeated_call_differs", format!("case {} {:?} [{:?}] at {}: two sequential evaluations differ:\n  {a}\n  {b}", c.id, c.text, c.ctx, c.t), json!({"seed": args.seed, "case": c.id, "expr": c.text}), None);
        }
        if a.starts_with("PANIC") {
            rep.violation("panic", format!("case {} {:?} [{:?}]: {a}", c.id, c.text, c.ctx), json!({"seed": args.seed, "case": c.id, "expr": c.text}), None);
        }
        // adversarial histories: neighbours that share all but one component with the case
        // (other place / country / zone / calendar on the same and adjacent dates; another
        // expression in the same context) are evaluated immediately before it; and a fresh thread
        // (empty thread-local state) evaluates it alone
        let mut r = Rng::new(args.seed, 0x1e7, c.id as u64);
        let mut histories: Vec<(String, Case)> = Vec::new();
        // one context component changed at a time: same coordinates under another zone (always
        // probed first: the shared component is what a too-coarse memo key would be made of)
        let mut first: Vec<(String, Case)> = Vec::new();
        match &c.ctx {
            CtxKind::Coords(lat, lon) | CtxKind::ZoneCoords(_, lat, lon) => {
                let z = match &c.ctx {
                    CtxKind::ZoneCoords(z, ..) if z == "UTC" => "Asia/Tokyo",
                    _ => "UTC",
                };
                let dt = *r.pick(&[0i64, 0, 1]);
                first.push(("same expression at the same coordinates under another zone".into(), Case { id: c.id, text: c.text.clone(), ctx: CtxKind::ZoneCoords(z.into(), *lat, *lon), t: c.t + Duration::days(dt) }));
            }
            _ => {}
        }
        for dt in [-1i64, 0, 1] {
            let other_ctx = match &c.ctx {
                CtxKind::Coords(lat, _) => {
                    let s = SITES.iter().find(|s| s.0 != *lat).unwrap();
                    CtxKind::Coords(s.0, s.1)
                }
                CtxKind::ZoneCoords(z, lat, _) => {
                    let s = SITES.iter().find(|s| s.0 != *lat).unwrap();
                    CtxKind::ZoneCoords(z.clone(), s.0, s.1)
                }
                CtxKind::Country(code) => CtxKind::Country(if code == "FR" { "US".into() } else { "FR".into() }),
                CtxKind::Zone(z) => CtxKind::Zone(if z == "Europe/Paris" { "Asia/Tokyo".into() } else { "Europe/Paris".into() }),
                CtxKind::Synthetic(s) => CtxKind::Synthetic(if s == "dense" { "runs".into() } else { "dense".into() }),
                CtxKind::None => CtxKind::Synthetic("dense".into()),
            };
            histories.push((format!("same expression in another context at t{dt:+}d"), Case { id: c.id, text: c.text.clone(), ctx: other_ctx, t: c.t + Duration::days(dt) }));
            histories.push((format!("another expression in the same context at t{dt:+}d"), Case { id: c.id, text: other.text.clone(), ctx: c.ctx.clone(), t: c.t + Duration::days(dt) }));
        }
        r.shuffle(&mut histories);
        for (what, h) in first.iter().chain(histories.iter()).take(4) {
            let _ = eval_case(h);
            let again = eval_case(c);
            rep.evaluations += 2;
            rep.count("history_interference_probes");
            if again != a {
                rep.violation("result_depends_on_history", format!("case {} {:?} [{:?}] at {}: evaluated right after {what} ({:?} [{:?}] at {}), the result differs from the earlier one:\n  before {a}\n  after  {again}", c.id, c.text, c.ctx, c.t, h.text, h.ctx, h.t), json!({"seed": args.seed, "case": c.id, "expr": c.text}), None);
                break;
            }
        }
        shared_expression_probe(c, rep, args.seed);
        let c2 = c.clone();
        let fresh = std::thread::spawn(move || {
            crate::out::install_quiet_panic_hook();
            eval_case(&c2)
        })
        .join()
        .unwrap_or_else(|_| "PANIC in thread".into());
        if fresh != a {
            rep.violation("result_depends_on_history", format!("case {} {:?} [{:?}] at {}: a fresh thread evaluating it alone gets a different result:\n  main thread  {a}\n  fresh thread {fresh}", c.id, c.text, c.ctx, c.t), json!({"seed": args.seed, "case": c.id, "expr": c.text}), None);
        }
        answers.push(a);
    }
    if !LIGHT.load(Ordering::Relaxed) {
        adjacent_coordinates_probe(args.seed, rep, 60);
    }
    rep.add("reference_cases", cases.len() as u64);
    answers
}

pub fn threads_phase(args: &Args, rep: &mut Report, reference: &[String], n: usize, allow_tz: bool, threads: usize, delay_us: u64, gate: bool) {
    let cases = Arc::new(gen_cases(args.seed, n, allow_tz));
    let reference = Arc::new(reference.to_vec());
    // shared values that do not touch any lazy table: built before the threads start
    let shared: Arc<Vec<Option<Arc<stream::Oh>>>> = Arc::new(
        cases
            .iter()
            .map(|c| match &c.ctx {
                CtxKind::None => Some(Arc::new(OpeningHours::parse(&c.text).unwrap())),
                CtxKind::Synthetic(s) => Some(Arc::new(OpeningHours::parse(&c.text).unwrap().with_context(HolSpec::Synthetic(s.clone()).context()))),
                _ => None,
            })
            .collect(),
    );
    hooks::LAZY_LOG.store(1, Ordering::SeqCst);
    hooks::LAZY_INIT_DELAY_US.store(delay_us, Ordering::SeqCst);
    hooks::LAZY_GATE_PARTIES.store(if gate { threads } else { 0 }, Ordering::SeqCst);
    let barrier = Arc::new(Barrier::new(threads));
    let mut handles = Vec::new();
    for th in 0..threads {
        let (cases, reference, shared, barrier) = (cases.clone(), reference.clone(), shared.clone(), barrier.clone());
        let seed = args.seed;
        let perm = args.worker;
        handles.push(std::thread::spawn(move || {
            crate::out::install_quiet_panic_hook();
            let mut order: Vec<usize> = (0..cases.len()).collect();
            let mut r = Rng::new(seed, 0x7ead + perm * 1000, th as u64);
            r.shuffle(&mut order);
            // cases needing a lazy table first, so that first use is contended
            order.sort_by_key(|i| !matches!(cases[*i].ctx, CtxKind::Country(_) | CtxKind::Coords(..)));
            let mut bad: Vec<(usize, usize, String)> = Vec::new();
            let mut evaluated = 0u64;
            barrier.wait();
            for (seq, &i) in order.iter().enumerate() {
                let c = &cases[i];
                let got = match (&shared[i], seq % 3) {
                    (Some(oh), 0) => guarded(|| answers_naive(oh, c.t)).unwrap_or_else(|p| format!("PANIC {p}")),
                    (Some(oh), 1) => {
                        let clone: stream::Oh = (**oh).clone();
                        guarded(|| answers_naive(&clone, c.t)).unwrap_or_else(|p| format!("PANIC {p}"))
                    }
                    _ => eval_case(c),
                };
                evaluated += 1;
                if got != reference[i] && bad.len() < 4 {
                    bad.push((seq, i, got));
                }
            }
            (bad, evaluated)
        }));
    }
    let mut total = 0u64;
    for (th, h) in handles.into_iter().enumerate() {
        match h.join() {
            Ok((bad, evaluated)) => {
                total += evaluated;
                for (seq, i, got) in bad {
                    let c = &cases[i];
                    rep.violation(
                        "concurrent_result_differs",
                        format!("thread {th}/{threads} (step {seq}, init delay {delay_us} us): case {} {:?} [{:?}] at {}: result differs from the sequential reference:\n  got      {got}\n  expected {}", c.id, c.text, c.ctx, c.t, reference[i]),
                        json!({"seed": seed_of(args), "case": c.id, "expr": c.text, "threads": threads, "delay_us": delay_us}),
                        None,
                    );
                }
            }
            Err(_) => rep.violation("thread_panicked", format!("thread {th} panicked outside of a guarded call"), json!({"seed": seed_of(args), "threads": threads}), None),
        }
    }
    rep.evaluations += total;
    rep.add("concurrent_evaluations", total);
    rep.count(&format!("runs.threads_{threads}.delay_{delay_us}us"));
    // first-use events
    let events = hooks::take_lazy_events();
    let mut tables: Vec<&str> = events.iter().map(|e| e.table).collect();
    tables.sort();
    tables.dedup();
    for t in tables {
        let begins: Vec<_> = events.iter().filter(|e| e.table == t && e.phase == "begin").collect();
        if !begins.is_empty() {
            rep.add(&format!("lazy.{t}.initialiser_runs"), begins.len() as u64);
        }
    }
    // threads that reached a gate before the matching table finished initialising
    for (gate_name, tables) in [("DB_HOLIDAYS", vec!["DB_PUBLIC", "DB_SCHOOL"]), ("BOUNDARIES", vec!["BOUNDARIES"]), ("TZ_NAME_FINDER", vec!["TZ_BY_NAME"])] {
        let first_begin = events.iter().filter(|e| tables.contains(&e.table) && e.phase == "begin").map(|e| e.seq).min();
        let gates: Vec<_> = events.iter().filter(|e| e.table == gate_name && e.phase == "gate").collect();
        if let Some(fb) = first_begin {
            let mut early: Vec<std::thread::ThreadId> = gates.iter().filter(|e| e.seq < fb + threads).map(|e| e.thread).collect();
            early.sort_by_key(|t| format!("{t:?}"));
            early.dedup();
            rep.add(&format!("lazy.{gate_name}.threads_contending_first_use"), early.len() as u64);
            if early.len() >= 2 {
                rep.count(&format!("lazy.{gate_name}.runs_with_contended_first_use"));
            }
        }
    }
    hooks::LAZY_LOG.store(0, Ordering::SeqCst);
}

fn seed_of(args: &Args) -> u64 {
    args.seed
}


/// Steady-state hammer: many threads evaluate MANY different contexts (places, calendars) on the
/// SAME few days at the highest rate the library allows, every answer compared with the answer the
/// same call gave sequentially before the threads started. Process-wide state shared between
/// evaluations of different contexts (a lock-free memo table, a scratch buffer, an index into a
/// shared table) is only wrong while two threads use it at the same moment for two different keys
/// that meet in it: thousands of keys on a handful of days make such meetings frequent, and short
/// calls (`schedule_at`) keep the proportion of time spent inside the shared state high.
pub fn hammer(args: &Args, rep: &mut Report) {
    let threads: usize = extra(args, "threads").and_then(|s| s.parse().ok()).unwrap_or(16);
    let n_places: usize = extra(args, "places").and_then(|s| s.parse().ok()).unwrap_or(4096);
    let iters: usize = extra(args, "iters").and_then(|s| s.parse().ok()).unwrap_or(250_000);
    let mut r = Rng::new(args.seed, 0x4a33e7, n_places as u64);
    // profile "sun": sun events only, two days, one calendar - the shortest calls on the fewest days,
    // so that two threads meet in shared state as often as possible; profile "mixed": also the
    // embedded calendars of all countries, holiday selectors and four days
    let sun_only = extra(args, "profile").map(|p| p == "sun").unwrap_or(false);
    let exprs: Vec<&str> = if sun_only {
vec!["sunrise-sunset", "dawn-dusk"]
    } else {
        vec!["sunrise-sunset", "dawn-dusk", "(sunrise+01:00)-(sunset-01:00); PH off", "Mo-Fr sunrise-12:00,13:00-dusk unknown \"c\"", "PH,SH 10:00-sunset; PH +1 day off"]
    };
    let second = NaiveDate::from_ymd_opt(2025, 12, 21).unwrap() + Duration::days(r.range(0, 300));
    // (profile "sun": ONE day, so that every pair of threads works on the same day all the time)
    let mut days: Vec<NaiveDate> = if sun_only { vec![NaiveDate::from_ymd_opt(2024, 6, 21).unwrap()] } else { vec![NaiveDate::from_ymd_opt(2024, 6, 21).unwrap(), second] };
    if !sun_only {
        days.extend([NaiveDate::from_ymd_opt(2024, 12, 25).unwrap(), NaiveDate::from_ymd_opt(2025, 1, 1).unwrap()]);
    }
    // places: half spread over the globe below 60 degrees, half in clusters a few metres apart
    let mut places: Vec<(f64, f64)> = Vec::with_capacity(n_places);
    while places.len() < n_places {
        if places.len() % 2 == 0 || places.is_empty() {
            places.push((r.range(-60_000, 60_000) as f64 / 1000.0, r.range(-179_999, 179_999) as f64 / 1000.0));
        } else {
            let (la, lo) = places[r.below(places.len() as u64) as usize];
            places.push(((la + r.range(-50, 50) as f64 * 1e-4).clamp(-60.0, 60.0), (lo + r.range(-50, 50) as f64 * 1e-4).clamp(-179.9, 179.9)));
        }
    }
    let zones: [Tz; 4] = [chrono_tz::UTC, chrono_tz::Europe::Paris, chrono_tz::Asia::Kolkata, chrono_tz::America::St_Johns];
    let hol = HolSpec::Synthetic("sparse".into());
    let values: Vec<OpeningHours<TzLocation<Tz>>> = places
        .iter()
        .enumerate()
        .map(|(i, (la, lo))| {
            let coords = Coordinates::new(*la, *lo).unwrap();
            // calendars: the synthetic one, or the embedded calendar of one of the 115 countries
            let holidays = if sun_only || i % 3 == 0 { hol.build() } else { Country::ALL[(i / 3) % Country::ALL.len()].holidays() };
            let ctx = Context::default().with_holidays(holidays).with_locale(TzLocation::new(zones[i % zones.len()]).with_coords(coords));
            OpeningHours::parse(exprs[i % exprs.len()]).unwrap().with_context(ctx)
        })
        .collect();
    // sequential reference (before any thread exists)
    let reference: Vec<Vec<String>> = values.iter().map(|v| days.iter().map(|d| guarded(|| fmt_sched(v.schedule_at(*d))).unwrap_or_else(|p| format!("PANIC {p}"))).collect()).collect();
    // a second sequential pass must agree with the first (otherwise the difference is not about threads)
    for (i, v) in values.iter().enumerate() {
        for (k, d) in days.iter().enumerate() {
            let again = guarded(|| fmt_sched(v.schedule_at(*d))).unwrap_or_else(|p| format!("PANIC {p}"));
            if again != reference[i][k] {
                rep.violation("repeated_call_differs", format!("place {:?}, {:?} on {d}: a second sequential call gives {again}, the first gave {}", places[i], exprs[i % exprs.len()], reference[i][k]), json!({"seed": args.seed, "mode": "hammer"}), None);
                return;
            }
        }
    }
    let values = Arc::new(values);
    let reference = Arc::new(reference);
    let days = Arc::new(days);
    let barrier = Arc::new(Barrier::new(threads));
    let mut handles = Vec::new();
    for th in 0..threads {
        let (values, reference, days, barrier) = (values.clone(), reference.clone(), days.clone(), barrier.clone());
        let seed = args.seed;
        handles.push(std::thread::spawn(move || {
            crate::out::install_quiet_panic_hook();
            let mut r = Rng::new(seed, 0x4a33e8, th as u64);
            let mut bad: Vec<(usize, usize, String)> = Vec::new();
            let mut n_bad = 0u64;
            barrier.wait();
            for _ in 0..iters {
                let i = r.below(values.len() as u64) as usize;
                let k = r.below(days.len() as u64) as usize;
                let got = guarded(|| fmt_sched(values[i].schedule_at(days[k]))).unwrap_or_else(|p| format!("PANIC {p}"));
                if got != reference[i][k] {
                    n_bad += 1;
                    if bad.len() < 3 {
                        bad.push((i, k, got));
                    }
                }
            }
            (bad, n_bad)
        }));
    }
    let mut total_bad = 0u64;
    for (th, h) in handles.into_iter().enumerate() {
        match h.join() {
            Ok((bad, n_bad)) => {
                total_bad += n_bad;
                for (i, k, got) in bad {
                    rep.violation(
                        "concurrent_result_differs",
                        format!("hammer: thread {th}/{threads}, {} places x {} days: schedule_at({}) of {:?} at {:?} (zone {}) differs from the sequential answer:\n  got      {got}\n  expected {}", places.len(), days.len(), days[k], exprs[i % exprs.len()], places[i], zones[i % zones.len()], reference[i][k]),
                        json!({"seed": args.seed, "mode": "hammer", "threads": threads, "places": places.len()}),
                        None,
                    );
                }
            }
            Err(_) => rep.violation("thread_panicked", format!("hammer thread {th} panicked outside of a guarded call"), json!({"seed": args.seed, "mode": "hammer"}), None),
        }
    }
    let total = (threads * iters) as u64;
    rep.evaluations += total;
    rep.add("hammer_concurrent_evaluations", total);
    rep.add("hammer_wrong_answers", total_bad);
    rep.max("hammer_places", places.len() as u64);
    rep.count(&format!("hammer_runs.places_{}.{}", places.len(), if sun_only { "sun" } else { "mixed" }));
}

pub fn run(args: &Args, rep: &mut Report) {
    LIGHT.store(extra(args, "light").is_some(), Ordering::Relaxed);
    let mode = extra(args, "mode").unwrap_or("small");
    let n: usize = extra(args, "cases").and_then(|s| s.parse().ok()).unwrap_or(400);
    let allow_tz = extra(args, "tz").map(|s| s != "0").unwrap_or(true);
    match mode {
        "reference" => {
            let answers = reference(args, rep, n, allow_tz);
            let path = extra(args, "ref").expect("ref=FILE");
            std::fs::write(path, serde_json::to_string(&answers).unwrap()).expect("write reference");
            let cases = gen_cases(args.seed, n, allow_tz);
            for c in cases.iter().take(3) {
                rep.sample(|| json!({"case": c.id, "expr": c.text, "context": format!("{:?}", c.ctx), "instant": c.t.to_string(), "answer": answers[c.id].chars().take(300).collect::<String>()}));
            }
            for c in &cases {
                rep.nontrivial(crate::rng::hash64(&format!("{}|{:?}|{}", c.text, c.ctx, c.t)));
            }
        }
        "hammer" => hammer(args, rep),
        "threads" => {
            let path = extra(args, "ref").expect("ref=FILE");
            let answers: Vec<String> = serde_json::from_str(&std::fs::read_to_string(path).expect("read reference")).expect("reference json");
            let threads: usize = extra(args, "threads").and_then(|s| s.parse().ok()).unwrap_or(4);
            let delay: u64 = extra(args, "delay").and_then(|s| s.parse().ok()).unwrap_or(0);
            let gate = extra(args, "gate").map(|s| s != "0").unwrap_or(true);
            threads_phase(args, rep, &answers, n, allow_tz, threads, delay, gate);
        }
        _ => {
            // small: everything in one process (Miri, TSan smoke)
            let threads: usize = extra(args, "threads").and_then(|s| s.parse().ok()).unwrap_or(3);
            let answers = reference_without_touching_lazies(args, n, allow_tz);
            threads_phase(args, rep, &answers, n, allow_tz, threads, 0, false);
        }
    }
}

/// For the single-process variant the reference must not initialise the lazies before the
/// threads race them: it is computed *after* the race, sequentially, by a second pass; here we
/// only return placeholders that `threads_phase` cannot compare, so the comparison is done by
/// running the race first and the sequential pass afterwards.
fn reference_without_touching_lazies(args: &Args, n: usize, allow_tz: bool) -> Vec<String> {
    // Run the race in a scoped way: spawn threads that compute answers, then compute the
    // sequential answers and compare. Implemented by evaluating in threads first.
    let cases = Arc::new(gen_cases(args.seed, n, allow_tz));
    let threads = extra(args, "threads").and_then(|s| s.parse().ok()).unwrap_or(3usize);
    let barrier = Arc::new(Barrier::new(threads));
    let mut handles = Vec::new();
    for _ in 0..threads {
        let (cases, barrier) = (cases.clone(), barrier.clone());
        handles.push(std::thread::spawn(move || {
            barrier.wait();
            cases.iter().map(eval_case).collect::<Vec<String>>()
        }));
    }
    let per_thread: Vec<Vec<String>> = handles.into_iter().map(|h| h.join().expect("thread")).collect();
    let sequential: Vec<String> = cases.iter().map(eval_case).collect();
    // any thread that disagreed with the sequential pass is left to threads_phase to re-detect;
    // to make the first (racing) pass count as well, poison the reference where it disagreed
    let mut out = sequential.clone();
    for t in &per_thread {
        for (i, a) in t.iter().enumerate() {
            if *a != sequential[i] {
                out[i] = format!("FIRST-USE RACE MISMATCH: racing thread got {a}, sequential {}", sequential[i]);
            }
        }
    }
    out
}

pub fn replay(args: &Args, case: &Value, rep: &mut Report) {
    // a C18 witness is an interleaving, which cannot be replayed exactly: re-run the small mode
    // at the recorded seed with the recorded thread count
    let mut a = Args { monitor: "C18".into(), seed: case["seed"].as_u64().unwrap_or(args.seed), worker: 0, of: 1, tier: "quick".into(), out: None, known: vec![], replay: None, scale: 1.0, extra: vec!["mode=small".into(), "cases=120".into()] };
    if let Some(t) = case["threads"].as_u64() {
        a.extra.push(format!("threads={}", t.min(16)));
    }
    run(&a, rep);
}
