//! C17 — Comments are well-formed and come from the rule in effect.

use super::c02::build;
use super::common::*;
use crate::gen::ctx::HolSpec;
use crate::gen::dates;
use crate::gen::expr::GenCfg;
use crate::known::{self, Classified};
use crate::model::{self, Holidays};
use crate::out::{guarded, Args, Report};
use crate::render;
use crate::rng::Rng;
use crate::stream::{self, Oh};
use chrono::{Duration, NaiveDate, NaiveDateTime, NaiveTime, Timelike};
use opening_hours::RuleKind;
use opening_hours_syntax::rules::OpeningHoursExpression;
use opening_hours_syntax::ExtendedTime;
use serde_json::{json, Value};
use std::collections::BTreeSet;
use std::sync::Arc;

#[derive(Default)]
pub struct Stats {
    pub ranges_checked: u64,
    pub single_rule_periods: u64,
    pub days_without_contribution: u64,
    pub first_interval_checks: u64,
    pub commented_ranges: u64,
}

fn sorted_unique(c: &[Arc<str>]) -> bool {
    c.windows(2).all(|w| w[0] < w[1])
}

pub fn check_day(ast: &OpeningHoursExpression, oh: &Oh, hol_spec: &HolSpec, d: NaiveDate, st: &mut Stats) -> Result<(), String> {
    let all_comments: BTreeSet<&str> = ast.rules.iter().flat_map(|r| r.comments.iter().map(|c| &**c)).collect();
    let ranges: Vec<_> = guarded(|| oh.schedule_at(d).into_iter().collect::<Vec<_>>()).map_err(|p| format!("schedule_at({d}) panicked: {p}"))?;
    let hol_ctx = hol_spec.build();
    let hol = Holidays { public: hol_ctx.get_public(), school: hol_ctx.get_school() };
    // (abstention is per shape, not per day: see C01)
    let m = if model::abstention(ast, &hol).is_some() { None } else { model::model_day(ast, d, &hol).ok() };
    for tr in &ranges {
        st.ranges_checked += 1;
        if !sorted_unique(&tr.comments) {
            return Err(format!("{d} {:?}: comments not sorted and unique: {:?}", tr.range, tr.comments.as_slice()));
        }
        for c in tr.comments.iter() {
            if !all_comments.contains(&**c) {
                return Err(format!("{d} {:?}: comment {c:?} is not a comment of any rule of the expression", tr.range));
            }
        }
        if !tr.comments.is_empty() {
            st.commented_ranges += 1;
        }
        if !dates::in_range(d) && !tr.comments.is_empty() {
            return Err(format!("{d} is outside the supported date range but {:?} carries comments {:?}", tr.range, tr.comments.as_slice()));
        }
    }
    let Some(m) = m else { return Ok(()) };
    if !m.any_contribution {
        st.days_without_contribution += 1;
        for tr in &ranges {
            if !tr.comments.is_empty() {
                return Err(format!("no rule contributes to the schedule of {d}, but {:?} carries comments {:?}", tr.range, tr.comments.as_slice()));
            }
        }
        return Ok(());
    }
    // periods contributed by exactly one rule, nothing else touching or overlapping
    for tr in &ranges {
        if tr.kind == RuleKind::Closed {
            continue;
        }
        let a = tr.range.start.mins_from_midnight() as i32;
        let b = (tr.range.end.mins_from_midnight() as i32).min(1440);
        let lo = (a - 1).max(0) as usize;
        let hi = (b + 1).min(1440) as usize;
        let mut involved: Vec<usize> = Vec::new();
        for (idx, rm) in m.rule_minutes.iter().enumerate() {
            if let Some(mins) = rm {
                if mins[lo..hi].iter().any(|x| *x) {
                    involved.push(idx);
                }
            }
        }
        if involved.len() == 1 {
            let r = &ast.rules[involved[0]];
            // the period must really be this rule's (kind agrees and it covers the whole period)
            let covers = m.rule_minutes[involved[0]].as_ref().map(|mins| mins[a as usize..b as usize].iter().all(|x| *x)).unwrap_or(false);
            if r.kind == tr.kind && covers {
                st.single_rule_periods += 1;
                let got: Vec<&str> = tr.comments.iter().map(|c| &**c).collect();
                let exp: Vec<&str> = r.comments.iter().map(|c| &**c).collect();
                if got != exp {
                    return Err(format!("{d} {:?} {} is contributed by rule {} alone (comments {exp:?}), nothing else touches it, but it carries {got:?}", tr.range, tr.kind, involved[0]));
                }
            }
        }
    }
    Ok(())
}

pub fn check_first_interval(oh: &Oh, from: NaiveDateTime, to: NaiveDateTime, st: &mut Stats) -> Result<(), String> {
    let first = guarded(|| oh.iter_range(from, to).next()).map_err(|p| format!("iter_range({from}, {to}) panicked: {p}"))?;
    let Some(first) = first else { return Ok(()) };
    st.first_interval_checks += 1;
    let time: ExtendedTime = NaiveTime::from_hms_opt(from.time().hour(), from.time().minute(), 0).unwrap().into();
    let period = guarded(|| oh.schedule_at(from.date()).into_iter().find(|tr| tr.range.start <= time && time < tr.range.end)).map_err(|p| format!("schedule_at panicked: {p}"))?;
    let Some(period) = period else {
        return Err(format!("schedule of {} has no period containing {}", from.date(), from.time()));
    };
    if first.comments != period.comments || first.kind != period.kind {
        return Err(format!("iter_range({from}, {to}): first interval has state {} and comments {:?}, the schedule period containing the start instant has {} and {:?}", first.kind, first.comments.as_slice(), period.kind, period.comments.as_slice()));
    }
    if !sorted_unique(&first.comments) {
        return Err(format!("iter_range({from}, {to}): comments of the first interval not sorted and unique: {:?}", first.comments.as_slice()));
    }
    Ok(())
}

pub fn check_case(ast: &OpeningHoursExpression, oh: &Oh, hol: &HolSpec, days: &[NaiveDate], starts: &[NaiveDateTime], st: &mut Stats) -> Result<(), String> {
    for d in days {
        check_day(ast, oh, hol, *d, st)?;
    }
    let all_comments: BTreeSet<&str> = ast.rules.iter().flat_map(|r| r.comments.iter().map(|c| &**c)).collect();
    for (si, s) in starts.iter().enumerate() {
        let to = *s + Duration::days(9);
        check_first_interval(oh, *s, to, st)?;
        // the same under an interval-size bound: state and comments of the interval containing the
        // start are those of the schedule period, whether or not the interval is cut by the bound
        let bound = [Duration::days(1), Duration::days(30), Duration::days(366), Duration::hours(36)][si % 4];
        let bounded = oh.clone().with_context(hol.context().approx_bound_interval_size(bound));
        check_first_interval(&bounded, *s, if si % 2 == 0 { to } else { stream::date_end() }, st).map_err(|e| format!("with an interval-size bound of {} h: {e}", bound.num_hours()))?;
        // all intervals of a short window: comments sorted, unique, from the expression, empty outside range
        let stream = stream::collect(oh, *s, to, 200).map_err(|p| format!("iter_range panicked: {p}"))?;
        for iv in &stream.intervals {
            if !sorted_unique(&iv.comments) {
                return Err(format!("interval [{}, {}): comments not sorted and unique: {:?}", iv.start, iv.end, iv.comments));
            }
            for c in &iv.comments {
                if !all_comments.contains(&**c) {
                    return Err(format!("interval [{}, {}): comment {c:?} is not a comment of any rule", iv.start, iv.end));
                }
            }
            if (iv.end <= stream::date_start() || iv.start >= stream::date_end()) && !iv.comments.is_empty() {
                return Err(format!("interval [{}, {}) outside the supported range carries comments {:?}", iv.start, iv.end, iv.comments));
            }
        }
    }
    Ok(())
}

fn gen_days_and_starts(ast: &OpeningHoursExpression, hol: &HolSpec, r: &mut Rng, thorough: bool) -> (Vec<NaiveDate>, Vec<NaiveDateTime>) {
    let ctx = hol.build();
    let mut days = dates::interesting_days(ast, ctx.get_public(), ctx.get_school(), r, if thorough { 120 } else { 40 });
    let ys = dates::years_of(ast);
    for _ in 0..(if thorough { 60 } else { 24 }) {
        days.push(dates::random_day(r, &ys));
    }
    days.push(dates::ymd(1899, 12, 31));
    days.push(dates::ymd(1899, 6, 1));
    days.push(NaiveDate::from_ymd_opt(10000, 1, 1).unwrap());
    days.retain(|d| *d != dates::min_day());
    let minutes = dates::interesting_minutes(ast);
    let mut starts = Vec::new();
    for _ in 0..4 {
        let d = if r.chance(50) && !days.is_empty() { *r.pick(&days) } else { dates::random_day(r, &ys) };
        starts.push(d.and_time(dates::random_time(r, &minutes, true)));
    }
    starts.push(dates::ymd(1899, 12, 30).and_hms_opt(r.below(24) as u32, 0, 0).unwrap());
    starts.push(dates::ymd(9999, 12, 30).and_hms_opt(r.below(24) as u32, 30, 0).unwrap());
    (days, starts)
}

fn report_failure(args: &Args, rep: &mut Report, ast: &OpeningHoursExpression, hol: &HolSpec, days: &[NaiveDate], starts: &[NaiveDateTime], msg: &str) {
    let fails = |c: &OpeningHoursExpression| -> Option<String> {
        let oh = build(&render::plain(c), hol)?;
        let mut st = Stats::default();
        check_case(c, &oh, hol, days, starts, &mut st).err()
    };
    let classified = known::classify(&args.known, ast, &|c| denotable(c), &mut |c| fails(c).is_some(), 400);
    let (small, known) = match classified {
        Classified::Unexplained(s) => (s, None),
        Classified::Explained(s, t) => (s, Some(t)),
    };
    let text = render::plain(&small);
    let what = fails(&small).unwrap_or_else(|| msg.to_string());
    rep.violation("comments", format!("{text:?} [{}]: {what}", hol.to_string()), json!({"expr": text, "holidays": hol.to_string(), "days": days.iter().map(|d| d.to_string()).collect::<Vec<_>>(), "starts": starts.iter().map(|d| d.to_string()).collect::<Vec<_>>()}), known);
}

/// Size family: 1..48 overlapping additional rules, each with its own comment (and variants with
/// repeated texts, prefix comments, mixed kinds): thresholds on the number of comments that
/// accumulate on one period cannot hide from it.
fn many_comments(args: &Args, rep: &mut Report, st: &mut Stats) {
    let day = NaiveDate::from_ymd_opt(2024, 6, 10).unwrap();
    let mut idx = 0u64;
    for k in 1..=48usize {
        for variant in 0..6 {
            idx += 1;
            if (idx - 1) % args.of.max(1) != args.worker {
                continue;
            }
            let rules: Vec<String> = (1..=k)
                .map(|i| {
                    let (a, b) = (8 + i % 3, 17 + i % 5);
                    match variant {
                        0 => format!("{a:02}:00-{b}:00 open \"c{i:02}\""),
                        1 => format!("{a:02}:00-{b}:00 unknown \"c{:02}\"", k - i),
                        // texts repeated across rules (every third rule reuses one)
                        2 => format!("{a:02}:00-{b}:00 open \"c{:02}\"", i % ((k * 2 / 3).max(1))),
                        // a prefix comment and a modifier comment on each rule
                        3 => format!("\"p{i:02}\":{a:02}:00-{b}:00 open \"c{i:02}\""),
                        // mixed kinds: the comments of the kind in effect only
                        4 => format!("{a:02}:00-{b}:00 {} \"c{i:02}\"", if i % 2 == 0 { "open" } else { "unknown" }),
                        _ => format!("Mo {a:02}:00-{b}:00 open \"{}\"", "x".repeat(i)),
                    }
                })
                .collect();
            let text = rules.join(", ");
            let Ok(ast) = lib_parse(&text) else {
                rep.count("many_comments_skipped_parser_rejects");
                continue;
            };
            let Some(oh) = build(&text, &HolSpec::None) else { continue };
            rep.evaluations += 1;
            rep.begin(&text);
            let days = [day, day.succ_opt().unwrap()];
            let starts = [day.and_hms_opt(0, 0, 0).unwrap(), day.and_hms_opt(12, 30, 0).unwrap()];
            match check_case(&ast, &oh, &HolSpec::None, &days, &starts, st) {
                Ok(()) => {
                    rep.count("many_comments_expressions_checked");
                    rep.max("max_comments_on_one_range", oh.schedule_at(day).into_iter().map(|t| t.comments.len()).max().unwrap_or(0) as u64);
                }
                Err(msg) => {
                    rep.violation("comments", format!("{text:?} [none]: {msg}"), json!({"expr": text, "holidays": "none", "days": days.iter().map(|d| d.to_string()).collect::<Vec<_>>(), "starts": starts.iter().map(|d| d.to_string()).collect::<Vec<_>>()}), None);
                    if rep.full() {
                        return;
                    }
                }
            }
        }
    }
}

pub fn run(args: &Args, rep: &mut Report) {
    let n = args.cases(400_000, 3_000_000);
    let mut st = Stats::default();
    many_comments(args, rep, &mut st);
    if rep.full() {
        return;
    }
    for k in 0..n {
        let mut cfg = GenCfg::standard(args.thorough()).rotated(k);
        cfg.comments_pct = 65;
        cfg.focus_pct = 10;
        let case = gen_case(args, k, &cfg, rep);
        let mut r = case.rng.clone();
        rep.evaluations += 1;
        rep.begin(&case.text);
        // The rule's comments are those of the expression as written (the generated AST). A parse
        // that differs from it in anything but comments is C05's business and is skipped here; a
        // parse that differs in comments only is judged against the written comments.
        let strip = |e: &OpeningHoursExpression| {
            let mut e = e.clone();
            for r in &mut e.rules {
                r.comments = Default::default();
            }
            e
        };
        match lib_parse(&case.text) {
            Ok(p) if p == case.ast => {}
            Ok(p) if strip(&p) == strip(&case.ast) => rep.count("parsed_comments_differ_from_written_ones"),
            _ => {
                rep.count("skipped_parser_differs");
                continue;
            }
        }
        let Some(oh) = build(&case.text, &case.hol) else { continue };
        coverage_of(&case.ast, rep);
        let (days, starts) = gen_days_and_starts(&case.ast, &case.hol, &mut r, args.thorough());
        match check_case(&case.ast, &oh, &case.hol, &days, &starts, &mut st) {
            Ok(()) => {
                rep.count("expressions_checked");
                if case.ast.rules.iter().any(|r| !r.comments.is_empty()) {
                    rep.nontrivial(crate::rng::hash64(&format!("{:?}|{}", case.ast, case.hol.to_string())));
                }
                if k < 3 {
                    rep.sample(|| json!({"expr": case.text, "holidays": case.hol.to_string(), "days": days.len(), "first_day_schedule": days.first().map(|d| format!("{:?}", oh.schedule_at(*d).into_iter().map(|t| (t.range, t.kind, t.comments)).collect::<Vec<_>>()))}));
                }
            }
            Err(msg) => {
                report_failure(args, rep, &case.ast, &case.hol, &days, &starts, &msg);
                if rep.full() {
                    break;
                }
            }
        }
    }
    rep.add("schedule_ranges_checked", st.ranges_checked);
    rep.add("ranges_with_comments", st.commented_ranges);
    rep.add("single_rule_isolated_periods", st.single_rule_periods);
    rep.add("days_without_contribution", st.days_without_contribution);
    rep.add("first_interval_checks", st.first_interval_checks);
    rep.require("single_rule_isolated_periods", 100_000);
    rep.require("ranges_with_comments", 100_000);
    rep.require("days_without_contribution", 50_000);
    rep.require("first_interval_checks", 50_000);
}

pub fn replay(args: &Args, case: &Value, rep: &mut Report) {
    let text = case_expr(case);
    let hol = case_hol(case);
    rep.evaluations += 1;
    let ast = match lib_parse(&text) {
        Ok(a) => a,
        Err(e) => {
            rep.violation("witness_rejected", format!("{text:?}: {e}"), case.clone(), None);
            return;
        }
    };
    let Some(oh) = build(&text, &hol) else { return };
    let days: Vec<NaiveDate> = case["days"].as_array().map(|a| a.iter().filter_map(|v| v.as_str()?.parse().ok()).collect()).unwrap_or_default();
    let starts: Vec<NaiveDateTime> = case["starts"].as_array().map(|a| a.iter().filter_map(|v| NaiveDateTime::parse_from_str(v.as_str()?, "%Y-%m-%d %H:%M:%S%.f").ok()).collect()).unwrap_or_default();
    let mut st = Stats::default();
    if let Err(msg) = check_case(&ast, &oh, &hol, &days, &starts, &mut st) {
        let known = known::explained_by(&args.known, &ast);
        rep.violation("comments", format!("{text:?} [{}]: {msg}", hol.to_string()), case.clone(), known);
    }
}
