//! C04 — Totality: no input makes the library panic or run unboundedly.
//!
//! Panics are observed with catch_unwind; bounded work is decided on logical step counters
//! (hook H1), never on wall-clock time: more outer day-steps than days in the window, or inner
//! loop ticks out of proportion with the expression, are violations; the CPU watchdog of the
//! orchestrator only makes a run inconclusive.

use super::common::*;
use crate::gen::expr::{self, GenCfg};
use crate::out::{guarded, Args, Report};
use crate::render;
use crate::rng::Rng;
use chrono::{Datelike, Duration, NaiveDate, NaiveDateTime, TimeZone};
use chrono_tz::Tz;
use opening_hours::localization::{Coordinates, TzLocation};
use opening_hours::verif_hooks as hooks;
use opening_hours::verif_hooks::Site;
use opening_hours::{Context, OpeningHours};
use opening_hours_syntax::rules::day::{MonthdayRange, WeekDayOffset};
use opening_hours_syntax::rules::OpeningHoursExpression;
use serde_json::{json, Value};

const DICT: [&str; 70] = [
    "/30", "/0", "/24:00", "/00:00", " +999999999 days", " -9223372036854775807 days", " +2964600 days", " +2964601 days", " -1 day", "[", "]", "[1]", "[-1]", "[6]", "[0]", "\"", "\"c\"", "\0", "é", "日", "\u{1F600}",
    "24/7", "Mo", "Mo-Fr", "Su", "PH", "SH", "easter", "Jan", "Feb 29", "Feb 30", "Dec 31", "Jan 0", "week", "week 53", "week 1-53/2", "week 0", "2020", "1900", "9999", "10000", "1899", "2020-2030/65535", "2020+", "+",
    "-", ",", ", ", ";", " ; ", "||", " || ", ":", " ", "  ", "00:00", "24:00", "24:01", "48:00", "48:01", "10:00-12:00", "sunrise", "(sunset+24:00)", "(dusk+06:01)-00:01", "dawn-dusk", "off", "closed", "unknown", "open", "99999999999999999999",
];

pub fn sample_lines() -> Vec<String> {
    let path = format!("{}/opening-hours/src/tests/data/sample.txt", super::c10::repo_root());
    std::fs::read_to_string(path).map(|t| t.lines().map(|l| l.to_string()).collect()).unwrap_or_default()
}

fn tokenize(s: &str) -> Vec<String> {
    // split at boundaries between character classes
    let mut out: Vec<String> = Vec::new();
    let class = |c: char| if c.is_ascii_digit() { 0 } else if c.is_alphabetic() { 1 } else if c == ' ' { 2 } else { 3 };
    for c in s.chars() {
        match out.last_mut() {
            Some(last) if class(last.chars().last().unwrap()) == class(c) && class(c) < 2 => last.push(c),
            _ => out.push(c.to_string()),
        }
    }
    out
}

pub fn mutate(r: &mut Rng, base: &str) -> String {
    let mut toks = tokenize(base);
    let n = 1 + r.below(3);
    for _ in 0..n {
        let pos = if toks.is_empty() { 0 } else { r.below(toks.len() as u64 + 1) as usize };
        match r.below(4) {
            0 => toks.insert(pos.min(toks.len()), r.pick(&DICT).to_string()),
            1 if !toks.is_empty() => {
                toks.remove(pos.min(toks.len() - 1));
            }
            2 if !toks.is_empty() => {
                let p = pos.min(toks.len() - 1);
                toks[p] = r.pick(&DICT).to_string();
            }
            _ if !toks.is_empty() => {
                let p = pos.min(toks.len() - 1);
                let t = toks[p].clone();
                toks.insert(p, t);
            }
            _ => {}
        }
    }
    toks.concat()
}

fn random_unicode(r: &mut Rng) -> String {
    let n = r.below(40);
    (0..n)
        .map(|_| match r.below(6) {
            0 => char::from_u32(r.below(0x80) as u32).unwrap_or(' '),
            1 => char::from_u32(0x80 + r.below(0x700) as u32).unwrap_or('é'),
            2 => char::from_u32(0x4E00 + r.below(0x5000) as u32).unwrap_or('日'),
            3 => char::from_u32(0x1F300 + r.below(0x400) as u32).unwrap_or('x'),
            4 => *r.pick(&['"', ':', ';', ',', '-', '+', '/', '[', ']', '(', ')', '|', ' ']),
            _ => *r.pick(&['0', '1', '2', '4', '9', 'M', 'o', 'J', 'a', 'n', 'P', 'H', 'w', 'e', 'k']),
        })
        .collect()
}

/// Size figures of an expression from which the logical budgets are derived.
struct Size {
    rules: u64,
    entries: u64,
    spans: u64,
    margin_years: u64,
}

fn size_of(e: &OpeningHoursExpression) -> Size {
    let mut s = Size { rules: e.rules.len() as u64, entries: 0, spans: 0, margin_years: 0 };
    for r in &e.rules {
        let ds = &r.day_selector;
        s.entries += (ds.year.len() + ds.monthday.len() + ds.week.len() + ds.weekday.len()) as u64;
        s.spans += r.time_selector.time.len() as u64;
        for m in &ds.monthday {
            if let MonthdayRange::Date { start, end } = m {
                for o in [&start.1, &end.1] {
                    let d = o.day_offset.unsigned_abs() + if o.wday_offset == WeekDayOffset::None { 0 } else { 6 };
                    s.margin_years = s.margin_years.max((d + 364) / 365);
                }
            }
        }
    }
    s
}

pub struct Work {
    pub max_day_steps: u64,
    pub max_ticks_per_step: u64,
}

/// Run `f` (one public call) with step counting; check the logical budgets afterwards.
/// `days`: number of days the call may legitimately walk over.
fn bounded<T>(what: &str, size: &Size, days: u64, f: impl FnOnce() -> T) -> Result<T, String> {
    hooks::reset_ticks();
    // hard stops so that a runaway loop ends in a violation rather than in a hang
    hooks::arm_budget(Site::DayStep, days + 3);
    let per_step = 64 * (size.rules + 1) * (size.entries + size.spans + 2) * (24 + 2 * size.margin_years);
    hooks::arm_budget(Site::ScheduleAt, days + 6);
    for s in [Site::WeekHint, Site::DateBounds, Site::ScheduleInsert, Site::ScheduleIter, Site::Positioning, Site::IterNext] {
        hooks::arm_budget(s, per_step.saturating_mul(days + 6));
    }
    hooks::arm_budget(Site::TzMinuteStep, 3_100 * (days + 6) * 8);
    let r = guarded(f);
    hooks::disarm_budgets();
    let t = hooks::ticks();
    match r {
        Ok(x) => Ok(x),
        Err(p) if p.starts_with("step budget exceeded") => Err(format!(
            "{what}: unbounded work: a step budget was exceeded (window of {days} days, budget per step {per_step}); counters: day_steps={} schedule_at={} week_hint={} date_bounds={} schedule_insert={} schedule_iter={} tz_minute_steps={} intervals_yielded={}",
            t[Site::DayStep as usize], t[Site::ScheduleAt as usize], t[Site::WeekHint as usize], t[Site::DateBounds as usize], t[Site::ScheduleInsert as usize], t[Site::ScheduleIter as usize], t[Site::TzMinuteStep as usize], t[Site::IterNext as usize]
        )),
        Err(p) => Err(format!("{what} panicked: {p}")),
    }
}

fn extreme_instant(r: &mut Rng) -> NaiveDateTime {
    let y = match r.below(8) {
        0 => r.range(-262_000, -200_000),
        1 => r.range(200_000, 262_000),
        2 => r.range(-5000, 1899),
        3 => r.range(10_000, 20_000),
        4 => *r.pick(&[1899i64, 1900, 9999, 10_000, 0, -1, 1, 262_000, -262_000]),
        _ => r.range(1900, 9999),
    } as i32;
    NaiveDate::from_yo_opt(y, 1 + r.below(365) as u32).unwrap().and_hms_nano_opt(r.below(24) as u32, r.below(60) as u32, *r.pick(&[0u32, 0, 59]), *r.pick(&[0u32, 0, 999_999_999])).unwrap()
}

const HOSTILE_COORDS: [(f64, f64); 10] = [(90.0, 0.0), (-90.0, 0.0), (90.0, 180.0), (-90.0, -180.0), (0.0, 180.0), (0.0, -180.0), (89.999, 179.999), (66.6, 25.0), (-66.6, -60.0), (0.0, 0.0)];
const GAP_ZONES: [&str; 10] = ["Pacific/Apia", "Australia/Lord_Howe", "Europe/Dublin", "America/St_Johns", "Asia/Kathmandu", "Africa/Monrovia", "Pacific/Kiritimati", "America/Sao_Paulo", "Pacific/Kwajalein", "Pacific/Fakaofo"];
/// local days that do not exist at all (date-line changes) and other long gaps: (zone, UTC instant shortly before)
const LONG_GAPS: [(&str, i32, u32, u32); 7] = [("Pacific/Apia", 2011, 12, 29), ("Pacific/Fakaofo", 2011, 12, 29), ("Pacific/Kwajalein", 1993, 8, 20), ("Pacific/Kiritimati", 1994, 12, 30), ("Pacific/Kanton", 1994, 12, 30), ("Asia/Manila", 1844, 12, 30), ("America/Juneau", 1867, 10, 18)];

/// Everything the property lists, on one string. Err = violation message.
pub fn check_string(text: &str, r: &mut Rng, rep: Option<&mut Report>) -> Result<bool, String> {
    check_string_with(text, r, rep, 4)
}

pub fn check_string_with(text: &str, r: &mut Rng, rep: Option<&mut Report>, unbounded_per_mille: u64) -> Result<bool, String> {
    let parsed = guarded(|| opening_hours_syntax::parse(text)).map_err(|p| format!("parse({text:?}) panicked: {p}"))?;
    let Ok(ast) = parsed else {
        // the error must be printable too
        if let Err(e) = parsed {
            guarded(|| e.to_string()).map_err(|p| format!("printing the parse error of {text:?} panicked: {p}"))?;
        }
        return Ok(false);
    };
    let size = size_of(&ast);
    let oh = guarded(|| OpeningHours::parse(text)).map_err(|p| format!("OpeningHours::parse({text:?}) panicked: {p}"))?.map_err(|e| format!("opening_hours_syntax::parse accepts {text:?} but OpeningHours::parse rejects it: {e}"))?;
    // printing, normalizing (paving operations bounded polynomially in the number of rules)
    let printed = guarded(|| oh.to_string()).map_err(|p| format!("to_string of {text:?} panicked: {p}"))?;
    let _ = opening_hours_syntax::verif_hooks::take_paving_ops();
    let norm = guarded(|| oh.normalize()).map_err(|p| format!("normalize of {text:?} panicked: {p}"))?;
    let ops = opening_hours_syntax::verif_hooks::take_paving_ops();
    let n = 2 * (size.rules + size.entries + size.spans) + 2;
    let paving_budget = 64 * n.pow(5).max(1);
    if ops > paving_budget {
        return Err(format!("normalize of {text:?}: {ops} paving operations for {} rules / {} selector entries (budget {paving_budget})", size.rules, size.entries));
    }
    guarded(|| norm.to_string()).map_err(|p| format!("printing the normal form of {text:?} panicked: {p}"))?;
    let _ = printed;
    if let Some(rep) = rep {
        rep.max("max_paving_ops", ops);
    }
    // evaluation in several contexts at instants from the whole representable range
    let tz: Tz = r.pick(&GAP_ZONES).parse().unwrap();
    let (lat, lon) = *r.pick(&HOSTILE_COORDS);
    let coords = guarded(|| Coordinates::new(lat, lon)).map_err(|p| format!("Coordinates::new({lat}, {lon}) panicked: {p}"))?;
    for round in 0..3 {
        let t = extreme_instant(r);
        let window_days = *r.pick(&[0i64, 1, 3, 40, 400, 5000]);
        let to = t.checked_add_signed(Duration::days(window_days) + Duration::minutes(r.range(0, 1439))).unwrap_or(t);
        let days = window_days as u64 + 2;
        let bound = if r.chance(30) { Some(Duration::days(*r.pick(&[1i64, 7, 366, 18_000]))) } else { None };
        // hostile bounds: the largest and smallest representable durations, zero, negative, sub-second
        let bound = if bound.is_some() && r.chance(12) {
            Some(*r.pick(&[Duration::MAX, Duration::MAX - Duration::days(1), Duration::MAX - Duration::hours(23), Duration::MIN, Duration::zero(), Duration::minutes(-5), Duration::nanoseconds(1), Duration::seconds(86_399), Duration::days(106_751_991_167 / 2), Duration::days(3_000_000)]))
        } else {
            bound
        };
        let bdesc = bound.map(|b| format!(" [context with interval-size bound {b}]")).unwrap_or_default();
        match round % 3 {
            0 => {
                let mut ctx = Context::default().with_holidays(crate::gen::ctx::gen_holspec(r).build());
                if let Some(b) = bound {
                    ctx = ctx.approx_bound_interval_size(b);
                }
                let o = oh.clone().with_context(ctx);
                bounded(&format!("schedule_at({}) of {text:?}", t.date()), &size, 1, || o.schedule_at(t.date()).into_iter().count())?;
                bounded(&format!("state({t}) of {text:?}{bdesc}"), &size, 2, || o.state(t))?;
                bounded(&format!("is_open/is_closed/is_unknown({t}) of {text:?}{bdesc}"), &size, 3 * 4, || (o.is_open(t), o.is_closed(t), o.is_unknown(t)))?;
                bounded(&format!("iter_range({t}, {to}) of {text:?}{bdesc}"), &size, days, || o.iter_range(t, to).count())?;
                if let Some(b) = bound.filter(|b| b.num_days() < 100_000 || r.chance(4)) {
                    // with an interval-size bound the unbounded call is bounded by it
                    let walk = (b.num_days().clamp(0, 3_000_000) as u64).min((NaiveDate::from_ymd_opt(10_000, 1, 1).unwrap() - t.date().max(NaiveDate::from_ymd_opt(1899, 12, 31).unwrap())).num_days().max(0) as u64) + 4;
                    bounded(&format!("next_change({t}) with bound {b} of {text:?}{bdesc}"), &size, walk, || o.next_change(t))?;
                }
            }
            1 => {
                // a fifth of the zoned rounds sit right before a gap longer than a day
                let (tz, t, to) = if r.chance(20) {
                    let g = r.pick(&LONG_GAPS);
                    let z: Tz = g.0.parse().unwrap_or(tz);
                    let t = NaiveDate::from_ymd_opt(g.1, g.2, g.3).unwrap().and_hms_opt(r.below(24) as u32, r.below(60) as u32, 0).unwrap();
                    (z, t, t + Duration::days(r.range(1, 4)))
                } else {
                    (tz, t, to)
                };
                let days = (to - t).num_days().max(0) as u64 + 2;
                let mut ctx = Context::default().with_locale(TzLocation::new(tz));
                if let Some(b) = bound {
                    ctx = ctx.approx_bound_interval_size(b);
                }
                let o = oh.clone().with_context(ctx);
                let i = tz.from_utc_datetime(&t);
                let j = tz.from_utc_datetime(&to);
                bounded(&format!("state({i}) in zone {tz} of {text:?}{bdesc}"), &size, 2, || o.state(i.clone()))?;
                bounded(&format!("iter_range({i}, {j}) in zone {tz} of {text:?}{bdesc}"), &size, days + 2, || o.iter_range(i.clone(), j.clone()).count())?;
                bounded(&format!("schedule_at in zone {tz} of {text:?}{bdesc}"), &size, 1, || o.schedule_at(t.date()).into_iter().count())?;
            }
            _ => {
                if let Some(c) = coords {
                    let ctx = guarded(|| Context::from_coords(c)).map_err(|p| format!("Context::from_coords({lat}, {lon}) panicked: {p}"))?;
                    let z = *ctx.locale.get_timezone();
                    let o = oh.clone().with_context(ctx);
                    let i = z.from_utc_datetime(&t);
                    let j = z.from_utc_datetime(&to);
                    bounded(&format!("state({i}) at ({lat}, {lon}) of {text:?}"), &size, 2, || o.state(i.clone()))?;
                    bounded(&format!("iter_range({i}, {j}) at ({lat}, {lon}) of {text:?}"), &size, days + 2, || o.iter_range(i.clone(), j.clone()).count())?;
                    bounded(&format!("schedule_at({}) at ({lat}, {lon}) of {text:?}", t.date()), &size, 1, || o.schedule_at(t.date()).into_iter().count())?;
                }
            }
        }
    }
    // unbounded next_change / iter_from: the walk must advance by at least one day per step and
    // end at 10000-01-01; its legitimate worst case is ~3 million day-steps, so it is made rarely
    if r.below(1000) < unbounded_per_mille {
        let t = extreme_instant(r);
        let from_day = t.date().max(NaiveDate::from_ymd_opt(1899, 12, 31).unwrap());
        let days = (NaiveDate::from_ymd_opt(10_000, 1, 1).unwrap() - from_day).num_days().max(0) as u64 + 3;
        bounded(&format!("next_change({t}) of {text:?}"), &size, days, || oh.next_change(t))?;
    }
    Ok(true)
}


/// Hostile holiday calendars: the property quantifies over *any* holiday calendars, and a
/// `CompactCalendar` holds any `NaiveDate` - including the first and last representable dates, where
/// `date + offset` stops being representable. Every calendar x holiday selector with an offset x
/// instant is evaluated through every public call under the usual step budgets.
fn hostile_calendar(name: &str) -> (compact_calendar::CompactCalendar, compact_calendar::CompactCalendar) {
    let mut p = compact_calendar::CompactCalendar::default();
    let mut s = compact_calendar::CompactCalendar::default();
    let dates: Vec<NaiveDate> = match name {
        "max_only" => vec![NaiveDate::MAX],
        "max_edge" => [0i64, 1, 2, 7, 8, 366, 367].iter().map(|k| NaiveDate::MAX - Duration::days(*k)).collect(),
        "min_only" => vec![NaiveDate::MIN],
        "min_edge" => [0i64, 1, 2, 7, 8, 366, 367].iter().map(|k| NaiveDate::MIN + Duration::days(*k)).collect(),
        "limit_high" => vec![NaiveDate::from_ymd_opt(9999, 12, 30).unwrap(), NaiveDate::from_ymd_opt(9999, 12, 31).unwrap(), NaiveDate::from_ymd_opt(10_000, 1, 1).unwrap(), NaiveDate::from_ymd_opt(10_000, 1, 2).unwrap()],
        _ => vec![NaiveDate::from_ymd_opt(1899, 12, 30).unwrap(), NaiveDate::from_ymd_opt(1899, 12, 31).unwrap(), NaiveDate::from_ymd_opt(1900, 1, 1).unwrap(), NaiveDate::from_ymd_opt(1900, 1, 2).unwrap()],
    };
    for d in dates {
        p.insert(d);
        s.insert(d);
    }
    (p, s)
}

const HOSTILE_CALENDARS: [&str; 6] = ["max_only", "max_edge", "min_only", "min_edge", "limit_high", "limit_low"];

fn check_hostile_calendar(cal: &str, text: &str, t: NaiveDateTime) -> Result<bool, String> {
    let Ok(Ok(oh)) = guarded(|| OpeningHours::parse(text)) else { return Ok(false) };
    let ast = opening_hours_syntax::parse(text).map_err(|e| format!("{text:?}: {e}"))?;
    let size = size_of(&ast);
    let (p, s) = hostile_calendar(cal);
    let ctx = Context::default().with_holidays(opening_hours::ContextHolidays::new(std::sync::Arc::new(p), std::sync::Arc::new(s)));
    let o = oh.with_context(ctx);
    let what = format!("of {text:?} with the holiday calendar `{cal}` (dates at the edge of the representable / supported range)");
    bounded(&format!("schedule_at({}) {what}", t.date()), &size, 1, || o.schedule_at(t.date()).into_iter().count())?;
    bounded(&format!("state({t}) {what}"), &size, 2, || o.state(t))?;
    let to = t.checked_add_signed(Duration::days(400)).unwrap_or(t);
    bounded(&format!("iter_range({t}, {to}) {what}"), &size, 402, || o.iter_range(t, to).count())?;
    let from_day = t.date().max(NaiveDate::from_ymd_opt(1899, 12, 31).unwrap());
    let days = (NaiveDate::from_ymd_opt(10_000, 1, 1).unwrap() - from_day).num_days().max(0) as u64 + 3;
    // (an expression that never changes state walks day by day to the end of the range: the
    //  library's designed worst case, seconds per call - not repeated for every calendar here)
    if !text.starts_with("24/7") || (cal == "limit_high" && t.date().year() >= 9999) {
        bounded(&format!("next_change({t}) {what}"), &size, days, || o.next_change(t))?;
    }
    Ok(true)
}

fn hostile_calendar_cases() -> Vec<(String, String, NaiveDateTime)> {
    let mut v = Vec::new();
    let at = |d: NaiveDate, h: u32, m: u32| d.and_hms_opt(h, m, 0).unwrap();
    let ymd = |y, m, d| NaiveDate::from_ymd_opt(y, m, d).unwrap();
    let instants = [
        at(ymd(1899, 12, 31), 23, 0),
        at(ymd(1900, 1, 1), 0, 0),
        at(ymd(2024, 6, 15), 12, 0),
        at(ymd(9999, 12, 30), 0, 0),
        at(ymd(9999, 12, 31), 23, 59),
        at(ymd(10_000, 1, 1), 0, 0),
        at(NaiveDate::MAX - Duration::days(2), 10, 0),
        at(NaiveDate::MAX, 23, 59),
        at(NaiveDate::MIN + Duration::days(2), 10, 0),
        at(NaiveDate::MIN, 0, 0),
    ];
    let offs: [i64; 15] = [0, 1, -1, 2, -2, 7, -7, 366, -366, 367, -367, 2_000_000, -2_000_000, 2_964_600, -2_964_600];
    for cal in HOSTILE_CALENDARS {
        for kind in ["PH", "SH"] {
            for o in offs {
                if kind == "SH" && o != 0 {
                    continue; // the grammar has day offsets for PH only
                }
                let sel = if o == 0 { kind.to_string() } else { format!("{kind} {}{} day{}", if o < 0 { '-' } else { '+' }, o.abs(), if o.abs() == 1 { "" } else { "s" }) };
                for text in [sel.clone(), format!("{sel} 10:00-12:00; Mo 08:00-09:00"), format!("Mo-Fr 08:00-18:00; {sel} off"), format!("{sel},Su 22:00-26:00"), format!("24/7; {sel} closed \"c\"")] {
                    for t in instants {
                        v.push((cal.to_string(), text.clone(), t));
                    }
                }
            }
        }
    }
    v
}

fn hostile_calendars(args: &Args, rep: &mut Report) {
    for (i, (cal, text, t)) in hostile_calendar_cases().into_iter().enumerate() {
        if (i as u64) % args.of.max(1) != args.worker || rep.full() {
            continue;
        }
        rep.evaluations += 1;
        rep.begin(&format!("{text:?} with calendar {cal} at {t}"));
        match check_hostile_calendar(&cal, &text, t) {
            Ok(true) => rep.count("hostile_calendar_cases"),
            Ok(false) => rep.count("hostile_calendar_expression_rejected"),
            Err(msg) => rep.violation("totality", msg, json!({"expr": text, "hostile_calendar": cal, "instant": t.to_string()}), None),
        }
    }
}


/// Far day offsets: the parser accepts day offsets of up to 2 964 600 days (about 8 100 years), so a
/// weekday / date selector evaluates its calendar arithmetic (days in the month, weekday, leap
/// days) on dates shifted as far as year -6200 or +18100. One walk over the whole supported range
/// per expression visits *every* day of those shifted years; the range is split between the workers.
const FAR_OFFSET_EXPRESSIONS: [&str; 12] = [
    "Tu[-1] +2964600 days 10:00-12:00",
    "Mo[1] -2964600 days",
    "Su[5] +2964600 days",
    "Sa[-5] -2964600 days 22:00-26:00",
    "We[-1] +1482300 days",
    "Fr[-2,2] +2222222 days",
    "Th[-3] +1000000 days",
    "Mo-Su[-4] +694000 days",
    "Feb 29 +2964600 days",
    "easter -2964600 days",
    "Jan 31 -1500000 days-Mar 01 -1500000 days",
    "PH +2964600 days",
];

fn check_far_offset(text: &str, part: u64, of: u64) -> Result<u64, String> {
    let Ok(Ok(oh)) = guarded(|| OpeningHours::parse(text)) else { return Ok(0) };
    let ast = opening_hours_syntax::parse(text).map_err(|e| format!("{text:?}: {e}"))?;
    let size = size_of(&ast);
    let first = NaiveDate::from_ymd_opt(1900, 1, 1).unwrap();
    let total = (NaiveDate::from_ymd_opt(10_000, 1, 1).unwrap() - first).num_days() as u64;
    let a = first + Duration::days((total * part / of) as i64);
    let b = first + Duration::days((total * (part + 1) / of) as i64);
    let days = (b - a).num_days() as u64;
    let n = bounded(&format!("iter_range({a}, {b}) of {text:?} (walk over the whole supported range, one part per worker)"), &size, days + 2, || {
        oh.iter_range(a.and_hms_opt(0, 0, 0).unwrap(), b.and_hms_opt(0, 0, 0).unwrap()).count()
    })?;
    Ok(n as u64)
}

fn far_offsets(args: &Args, rep: &mut Report) {
    let of = args.of.max(1);
    for (i, text) in FAR_OFFSET_EXPRESSIONS.iter().enumerate() {
        if rep.full() {
            return;
        }
        // date selectors with far offsets widen their window of years by what the offset reaches:
        // thousands of years scanned per day-step (legitimate, but minutes per walk) - thorough only
        if !args.thorough() && (text.starts_with("easter") || text.starts_with("Jan 31")) {
            continue;
        }
        // every worker walks its own part of the range for every expression
        let part = (args.worker + i as u64) % of;
        rep.evaluations += 1;
        rep.begin(&format!("far offset walk {text:?} part {part}/{of}"));
        match check_far_offset(text, part, of) {
            Ok(n) => {
                rep.count("far_offset_walks");
                rep.add("far_offset_intervals", n);
            }
            Err(msg) => rep.violation("totality", msg, json!({"expr": text, "far_offset_part": part, "far_offset_of": of}), None),
        }
    }
}

fn case_of(text: &str, seed: (u64, u64, u64)) -> Value {
    json!({"expr": text, "seed": seed.0, "worker": seed.1, "index": seed.2})
}

pub fn run(args: &Args, rep: &mut Report) {
    let samples = sample_lines();
    rep.add("sample_lines_loaded", samples.len() as u64);
    let t0 = std::time::Instant::now();
    hostile_calendars(args, rep);
    rep.add("hostile_calendars_ms", t0.elapsed().as_millis() as u64);
    let t0 = std::time::Instant::now();
    far_offsets(args, rep);
    rep.add("far_offsets_ms", t0.elapsed().as_millis() as u64);
    let n = args.cases(320_000, 6_000_000);
    for k in 0..n {
        let mut r = Rng::new(args.seed, args.worker, k);
        let text = match k % 8 {
            0 | 1 | 2 => {
                let cfg = GenCfg::standard(args.thorough()).rotated(k);
                let ast = expr::gen_expr(&mut r, &cfg);
                let mut v = render::Variants::random(Rng::new(args.seed ^ 4, args.worker, k));
                let base = render::expr(&mut v, &ast);
                if k % 8 == 0 { base } else { mutate(&mut r, &base) }
            }
            3 | 4 if !samples.is_empty() => {
                let line: String = samples[r.below(samples.len() as u64) as usize].clone();
                mutate(&mut r, &line)
            }
            5 => {
                // single-field corruption of a rendered sentence: a digit run replaced
                let cfg = GenCfg::standard(false).rotated(k);
                let ast = expr::gen_expr(&mut r, &cfg);
                let base = render::plain(&ast);
                let toks = tokenize(&base);
                let digits: Vec<usize> = toks.iter().enumerate().filter(|(_, t)| t.chars().all(|c| c.is_ascii_digit())).map(|(i, _)| i).collect();
                if digits.is_empty() {
                    base
                } else {
                    let mut toks = toks;
                    let i = *r.pick(&digits);
                    toks[i] = r.pick(&["0", "00", "24", "25", "32", "48", "49", "54", "60", "99", "1899", "10000", "65536", "4294967296", "18446744073709551616"]).to_string();
                    toks.concat()
                }
            }
            6 => random_unicode(&mut r),
            _ => {
                let a = r.pick(&DICT).to_string();
                let b = r.pick(&DICT).to_string();
                let c = r.pick(&DICT).to_string();
                format!("{a}{}{b}{}{c}", r.pick(&["", " ", ":"]), r.pick(&["", " ", ","]))
            }
        };
        rep.evaluations += 1;
        rep.begin(&format!("{text:?}"));
        match check_string_with(&text, &mut r, Some(rep), if args.thorough() { 20 } else { 4 }) {
            Ok(parsed) => {
                if parsed {
                    rep.count("strings_parsed_and_evaluated");
                    rep.nontrivial(crate::rng::hash64(&text));
                } else {
                    rep.count("strings_rejected");
                    if !text.is_empty() {
                        rep.nontrivial(crate::rng::hash64(&text));
                    }
                }
                rep.count(&format!("source.{}", k % 8));
                if k < 6 {
                    rep.sample(|| json!({"string": text, "parsed": parsed}));
                }
            }
            Err(msg) => {
                // shrink the string by deleting tokens while it still fails
                let mut toks = tokenize(&text);
                let mut i = 0;
                let mut budget = 200;
                while i < toks.len() && toks.len() > 1 && budget > 0 {
                    budget -= 1;
                    let mut t = toks.clone();
                    t.remove(i);
                    let cand = t.concat();
                    let mut r2 = Rng::new(args.seed, args.worker, k);
                    let fails = (0..3).any(|_| check_string(&cand, &mut r2, None).is_err());
                    if fails {
                        toks = t;
                    } else {
                        i += 1;
                    }
                }
                let small = toks.concat();
                let mut r2 = Rng::new(args.seed, args.worker, k);
                let msg2 = (0..3).find_map(|_| check_string(&small, &mut r2, None).err()).unwrap_or(msg);
                rep.violation("totality", msg2, case_of(&small, (args.seed, args.worker, k)), None);
                if rep.full() {
                    break;
                }
            }
        }
    }
    rep.require("strings_parsed_and_evaluated", 20_000);
    rep.require("strings_rejected", 20_000);
}

pub fn replay(_args: &Args, case: &Value, rep: &mut Report) {
    let text = case_expr(case);
    rep.evaluations += 1;
    if let Some(of) = case["far_offset_of"].as_u64() {
        if let Err(msg) = check_far_offset(&text, case["far_offset_part"].as_u64().unwrap_or(0), of) {
            rep.violation("totality", msg, case.clone(), None);
        }
        return;
    }
    if let Some(cal) = case["hostile_calendar"].as_str() {
        let t = chrono::NaiveDateTime::parse_from_str(case["instant"].as_str().unwrap_or(""), "%Y-%m-%d %H:%M:%S").unwrap_or_default();
        if let Err(msg) = check_hostile_calendar(cal, &text, t) {
            rep.violation("totality", msg, case.clone(), None);
        }
        return;
    }
    // contexts and instants are drawn from the recorded stream and a few more
    for k in 0..40u64 {
        let mut r = if k == 0 {
            Rng::new(case["seed"].as_u64().unwrap_or(1), case["worker"].as_u64().unwrap_or(0), case["index"].as_u64().unwrap_or(0))
        } else {
            Rng::new(77, 0, k)
        };
        if let Err(msg) = check_string(&text, &mut r, None) {
            rep.violation("totality", msg, case.clone(), None);
            return;
        }
    }
}
