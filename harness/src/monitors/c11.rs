//! C11 — Sun events are physically ordered and consistent with coordinates and zone.

use crate::out::{guarded, Args, Report};
use crate::rng::Rng;
use chrono::{DateTime, Datelike, Duration, NaiveDate, NaiveDateTime, Offset, TimeZone, Timelike, Utc};
use chrono_tz::Tz;
use opening_hours::localization::{Coordinates, Localize, NoLocation, TzLocation};
use opening_hours::{Context, OpeningHours, RuleKind};
use opening_hours_syntax::rules::time::TimeEvent;
use serde_json::{json, Value};

const EVENTS: [(TimeEvent, &str, u32); 4] = [(TimeEvent::Dawn, "dawn", 360), (TimeEvent::Sunrise, "sunrise", 420), (TimeEvent::Sunset, "sunset", 1140), (TimeEvent::Dusk, "dusk", 1200)];

const CITIES: [(&str, f64, f64, &str); 40] = [
    ("Paris", 48.8566, 2.3522, "Europe/Paris"), ("London", 51.5074, -0.1278, "Europe/London"), ("New York", 40.7128, -74.0060, "America/New_York"),
    ("Los Angeles", 34.0522, -118.2437, "America/Los_Angeles"), ("Tokyo", 35.6762, 139.6503, "Asia/Tokyo"), ("Sydney", -33.8688, 151.2093, "Australia/Sydney"),
    ("Sao Paulo", -23.5505, -46.6333, "America/Sao_Paulo"), ("Moscow", 55.7558, 37.6173, "Europe/Moscow"), ("Cairo", 30.0444, 31.2357, "Africa/Cairo"),
    ("Johannesburg", -26.2041, 28.0473, "Africa/Johannesburg"), ("Delhi", 28.6139, 77.2090, "Asia/Kolkata"), ("Beijing", 39.9042, 116.4074, "Asia/Shanghai"),
    ("Mexico City", 19.4326, -99.1332, "America/Mexico_City"), ("Buenos Aires", -34.6037, -58.3816, "America/Argentina/Buenos_Aires"), ("Lima", -12.0464, -77.0428, "America/Lima"),
    ("Nairobi", -1.2921, 36.8219, "Africa/Nairobi"), ("Lagos", 6.5244, 3.3792, "Africa/Lagos"), ("Istanbul", 41.0082, 28.9784, "Europe/Istanbul"),
    ("Tehran", 35.6892, 51.3890, "Asia/Tehran"), ("Kathmandu", 27.7172, 85.3240, "Asia/Kathmandu"), ("Bangkok", 13.7563, 100.5018, "Asia/Bangkok"),
    ("Jakarta", -6.2088, 106.8456, "Asia/Jakarta"), ("Seoul", 37.5665, 126.9780, "Asia/Seoul"), ("Auckland", -36.8485, 174.7633, "Pacific/Auckland"),
    ("Honolulu", 21.3069, -157.8583, "Pacific/Honolulu"), ("Anchorage", 61.2181, -149.9003, "America/Anchorage"), ("Reykjavik", 64.1466, -21.9426, "Atlantic/Reykjavik"),
    ("Madrid", 40.4168, -3.7038, "Europe/Madrid"), ("Berlin", 52.5200, 13.4050, "Europe/Berlin"), ("Rome", 41.9028, 12.4964, "Europe/Rome"),
    ("Lisbon", 38.7223, -9.1393, "Europe/Lisbon"), ("Dublin", 53.3498, -6.2603, "Europe/Dublin"), ("Chicago", 41.8781, -87.6298, "America/Chicago"),
    ("Denver", 39.7392, -104.9903, "America/Denver"), ("Toronto", 43.6532, -79.3832, "America/Toronto"), ("Santiago", -33.4489, -70.6693, "America/Santiago"),
    ("Perth", -31.9505, 115.8605, "Australia/Perth"), ("Adelaide", -34.9285, 138.6007, "Australia/Adelaide"), ("Kabul", 34.5553, 69.2075, "Asia/Kabul"),
    ("St. John's", 47.5615, -52.7126, "America/St_Johns"),
];

fn model_valid(lat: f64, lon: f64) -> bool {
    !lat.is_nan() && !lon.is_nan() && (-90.0..=90.0).contains(&lat) && (-180.0..=180.0).contains(&lon)
}

fn next_up(x: f64) -> f64 {
    if x.is_nan() || x == f64::INFINITY {
        return x;
    }
    if x == 0.0 {
        return f64::from_bits(1);
    }
    let b = x.to_bits();
    f64::from_bits(if x > 0.0 { b + 1 } else { b - 1 })
}

fn next_down(x: f64) -> f64 {
    -next_up(-x)
}

/// 1. without coordinates the four events are at their documented defaults on every date
fn check_defaults(r: &mut Rng, rep: &mut Report) -> Result<(), String> {
    let date = if r.chance(20) {
        *r.pick(&[NaiveDate::from_ymd_opt(1900, 1, 2).unwrap(), NaiveDate::from_ymd_opt(9999, 12, 31).unwrap(), NaiveDate::from_ymd_opt(2024, 2, 29).unwrap(), NaiveDate::from_ymd_opt(2024, 6, 21).unwrap()])
    } else {
        crate::gen::dates::random_day(r, &[])
    };
    let (e1, n1, m1) = *r.pick(&EVENTS);
    let (e2, n2, m2) = *r.pick(&EVENTS);
    let o1 = *r.pick(&[0i32, 0, 30, -30, 90, -359]);
    let o2 = *r.pick(&[0i32, 0, 45, -45, 120, 239]);
    let fmt = |n: &str, o: i32| if o == 0 { n.to_string() } else { format!("({n}{}{:02}:{:02})", if o < 0 { '-' } else { '+' }, o.abs() / 60, o.abs() % 60) };
    let text = format!("{}-{}", fmt(n1, o1), fmt(n2, o2));
    let (s, mut e) = (m1 as i32 + o1, m2 as i32 + o2);
    if e <= s {
        e += 1440;
    }
    // the rule applies every day, so the part passing midnight shows at the start of the day too
    let mut expected: Vec<(i32, i32)> = Vec::new();
    if e > 1440 {
        if e - 1440 >= s {
            expected.push((0, 1440));
        } else {
            if e - 1440 > 0 {
                expected.push((0, e - 1440));
            }
            expected.push((s, 1440));
        }
    } else {
        expected.push((s, e));
    }
    let check = |sched: Vec<(i32, i32)>, what: &str| -> Result<(), String> {
        if sched != expected {
            return Err(format!("{text:?} on {date} {what}: open {sched:?} (minutes), events without coordinates are 06:00/07:00/19:00/20:00 so {expected:?} is expected"));
        }
        Ok(())
    };
    let open_ranges = |it: Vec<opening_hours::schedule::TimeRange>| -> Vec<(i32, i32)> { it.into_iter().filter(|t| t.kind == RuleKind::Open).map(|t| (t.range.start.mins_from_midnight() as i32, t.range.end.mins_from_midnight() as i32)).collect() };
    let oh = OpeningHours::parse(&text).map_err(|e| format!("{text:?} rejected: {e}"))?;
    check(open_ranges(guarded(|| oh.schedule_at(date).into_iter().collect()).map_err(|p| format!("{text:?}: {p}"))?), "without location")?;
    let tz: Tz = chrono_tz::TZ_VARIANTS[r.below(chrono_tz::TZ_VARIANTS.len() as u64) as usize];
    let zoned = oh.with_context(Context::default().with_locale(TzLocation::new(tz)));
    check(open_ranges(guarded(|| zoned.schedule_at(date).into_iter().collect()).map_err(|p| format!("{text:?}: {p}"))?), &format!("with zone {tz} and no coordinates"))?;
    // the Localize default itself
    for (ev, _, m) in EVENTS {
        let t = NoLocation.event_time(date, ev);
        let t2 = TzLocation::new(tz).event_time(date, ev);
        if t.hour() * 60 + t.minute() != m || t2 != t || t.second() != 0 {
            return Err(format!("event_time({date}, {ev:?}) without coordinates = {t} / {t2}"));
        }
    }
    let _ = (e1, e2);
    rep.count("default_event_checks");
    Ok(())
}

/// 2. acceptance of coordinate pairs
fn check_acceptance(r: &mut Rng, rep: &mut Report) -> Result<(), String> {
    let specials = [0.0, -0.0, 90.0, -90.0, 180.0, -180.0, next_up(90.0), next_down(-90.0), next_up(180.0), next_down(-180.0), next_down(90.0), next_up(-90.0), next_down(180.0), next_up(-180.0), 91.0, -91.0, 181.0, -181.0, 360.0, 1e300, -1e300, f64::INFINITY, f64::NEG_INFINITY, f64::NAN, f64::MIN_POSITIVE, 89.99999999, 179.99999999];
    let pick = |r: &mut Rng, span: f64| -> f64 {
        if r.chance(60) {
            *r.pick(&specials)
        } else {
            (r.f64() * 2.0 - 1.0) * span * 1.3
        }
    };
    let (lat, lon) = (pick(r, 90.0), pick(r, 180.0));
    let got = guarded(|| Coordinates::new(lat, lon)).map_err(|p| format!("Coordinates::new({lat}, {lon}) panicked: {p}"))?;
    let exp = model_valid(lat, lon);
    if got.is_some() != exp {
        return Err(format!("Coordinates::new({lat:?}, {lon:?}) is {}, expected {}", if got.is_some() { "accepted" } else { "rejected" }, if exp { "accepted" } else { "rejected" }));
    }
    rep.count(if exp { "pairs_accepted" } else { "pairs_rejected" });
    if let Some(c) = got {
        if c.lat().to_bits() != lat.to_bits() && c.lat() != lat || c.lon() != lon && !(lon == 0.0 && c.lon() == 0.0) {
            return Err(format!("Coordinates::new({lat:?}, {lon:?}) stores ({:?}, {:?})", c.lat(), c.lon()));
        }
    }
    Ok(())
}

/// The documented defaults on one day, without coordinates (plain and zoned context).
struct DefaultSweep {
    plain: OpeningHours,
    zoned: OpeningHours<TzLocation<Tz>>,
}

impl DefaultSweep {
    fn new() -> Self {
        let text = "dawn-sunrise,sunset-dusk";
        DefaultSweep { plain: OpeningHours::parse(text).unwrap(), zoned: OpeningHours::parse(text).unwrap().with_context(Context::default().with_locale(TzLocation::new(chrono_tz::Pacific::Chatham))) }
    }

    fn check(&self, d: NaiveDate) -> Result<(), String> {
        let expected = vec![(0u16, 360u16, RuleKind::Closed), (360, 420, RuleKind::Open), (420, 1140, RuleKind::Closed), (1140, 1200, RuleKind::Open), (1200, 1440, RuleKind::Closed)];
        let flat = |s: opening_hours::schedule::Schedule| -> Vec<(u16, u16, RuleKind)> { s.into_iter().map(|t| (t.range.start.mins_from_midnight(), t.range.end.mins_from_midnight(), t.kind)).collect() };
        let got = guarded(|| (flat(self.plain.schedule_at(d)), flat(self.zoned.schedule_at(d)), NoLocation.event_time(d, TimeEvent::Dusk)));
        let ok = matches!(&got, Ok((a, b, t)) if *a == expected && *b == expected && t.hour() == 20 && t.minute() == 0);
        if ok {
            Ok(())
        } else {
            Err(format!("\"dawn-sunrise,sunset-dusk\" on {d} without coordinates: {got:?}, expected open 06:00-07:00 and 19:00-20:00 (exhaustive sweep over every day)"))
        }
    }
}

/// Zone inference against an own instance of the finder the library is documented to use, on
/// sequences of lookups that a cache keyed on too little would get wrong: walks across zone
/// borders in steps of 10..500 m, repeated and alternating lookups.

/// Sentinel solving: a library (or one of its dependencies) that encodes "no such event" as a
/// special instant - the Unix epoch, a 32-bit limit, J2000 - misbehaves only where a REAL event falls
/// exactly on that instant. For every sentinel x event x latitude row the longitude is solved for
/// (event times move by 240 s per degree, so a bisection lands on the exact second), and the place
/// is judged there on that date like any other site.
fn sentinel_probe(args: &Args, rep: &mut Report) {
    let sentinels = ["1970-01-01 00:00:00", "2038-01-19 03:14:07", "2038-01-19 03:14:08", "2001-09-09 01:46:40", "1901-12-13 20:45:52", "2000-01-01 12:00:00", "2000-01-01 00:00:00", "1969-12-31 23:59:59"];
    let events = [TimeEvent::Dawn, TimeEvent::Sunrise, TimeEvent::Sunset, TimeEvent::Dusk];
    let mut idx = 0u64;
    for s in sentinels {
        let target = NaiveDateTime::parse_from_str(s, "%Y-%m-%d %H:%M:%S").unwrap().and_utc();
        for e in events {
            for row in -8i32..=8 {
                let lat = row as f64 * 7.5;
                for dd in -1i64..=1 {
                    idx += 1;
                    if (idx - 1) % args.of.max(1) != args.worker || rep.full() {
                        continue;
                    }
                    let date = target.date_naive() + Duration::days(dd);
                    let f = |lon: f64| -> Option<i64> { Coordinates::new(lat, lon).and_then(|c| guarded(|| c.event_time(date, e)).ok()).map(|t| (t - target).num_seconds()) };
                    let (mut lo, mut hi) = (-180.0f64, 180.0f64);
                    let (Some(flo), Some(fhi)) = (f(lo), f(hi)) else { continue };
                    // later in the west, earlier in the east
                    if !(flo >= 0 && fhi <= 0) {
                        rep.count("sentinel_not_reachable_on_this_date");
                        continue;
                    }
                    let mut found = None;
                    for _ in 0..80 {
                        let mid = (lo + hi) / 2.0;
                        match f(mid) {
                            Some(0) => {
                                found = Some(mid);
                                break;
                            }
                            Some(v) if v > 0 => lo = mid,
                            Some(_) => hi = mid,
                            None => break,
                        }
                    }
                    let Some(lon) = found else {
                        rep.count("sentinel_not_hit_exactly");
                        continue;
                    };
                    rep.evaluations += 1;
                    rep.count("sentinel_sites_solved");
                    rep.begin(&format!("sentinel site ({lat}, {lon}) on {date}: {e:?} at {s}"));
                    for (la, lo2, d2) in [(lat, lon, date), (lat, lon, date.pred_opt().unwrap()), (lat, lon, date.succ_opt().unwrap())] {
                        let res = check_site_day(la, lo2, d2).and_then(|_| check_site(la, lo2, d2, rep));
                        if let Err(msg) = res {
                            rep.violation("sun_events", format!("(site where {e:?} falls exactly on {s} UTC) {msg}"), json!({"lat": la, "lon": lo2, "date": d2.to_string()}), None);
                        }
                    }
                }
            }
        }
    }
}

fn border_walks(args: &Args, rep: &mut Report) {
    use std::sync::LazyLock;
    static ORACLE: LazyLock<tzf_rs::DefaultFinder> = LazyLock::new(tzf_rs::DefaultFinder::new);
    let oracle = |lat: f64, lon: f64| -> Tz { ORACLE.get_tz_name(lon, lat).parse::<Tz>().unwrap_or(chrono_tz::UTC) };
    let lib = |lat: f64, lon: f64| -> Result<Tz, String> {
        let c = Coordinates::new(lat, lon).ok_or_else(|| format!("valid pair ({lat}, {lon}) rejected"))?;
        guarded(|| *TzLocation::from_coords(c).get_timezone()).map_err(|p| format!("from_coords({lat}, {lon}) panicked: {p}"))
    };
    let n = args.cases(6_000, 60_000);
    let mut prev: Option<(f64, f64)> = None;
    for k in 0..n {
        let mut r = Rng::new(args.seed, 0xb0de + args.worker, k);
        // two end points in different zones: cities, or random sites
        let (a, b) = if r.chance(40) {
            let (x, y) = (r.pick(&CITIES), r.pick(&CITIES));
            ((x.1, x.2), (y.1, y.2))
        } else {
            let p = (r.f64() * 130.0 - 60.0, r.f64() * 360.0 - 180.0);
            ((p.0, p.1), ((p.0 + (r.f64() - 0.5) * 20.0).clamp(-85.0, 85.0), (p.1 + (r.f64() - 0.5) * 20.0).clamp(-180.0, 180.0)))
        };
        let (za, zb) = (oracle(a.0, a.1), oracle(b.0, b.1));
        if za == zb {
            rep.count("border_walks_same_zone_skipped");
            continue;
        }
        // bisect on the oracle to a point pair ~10 m apart lying in different zones
        let at = |t: f64| (a.0 + (b.0 - a.0) * t, a.1 + (b.1 - a.1) * t);
        let (mut lo, mut hi) = (0.0f64, 1.0f64);
        for _ in 0..40 {
            let mid = (lo + hi) / 2.0;
            let p = at(mid);
            if oracle(p.0, p.1) == za {
                lo = mid;
            } else {
                hi = mid;
            }
            let (p, q) = (at(lo), at(hi));
            if (p.0 - q.0).abs() < 0.00005 && (p.1 - q.1).abs() < 0.00005 {
                break;
            }
        }
        let len_deg = ((b.0 - a.0).powi(2) + (b.1 - a.1).powi(2)).sqrt().max(1e-9);
        let border = (lo + hi) / 2.0;
        // a walk across the border: signed distances in degrees along the segment (1e-4 deg ~ 11 m)
        let steps = [-5e-3, -1e-3, -5e-4, -1e-4, 1e-4, -1e-4, 5e-4, 1e-3, -5e-4, 5e-3, 1e-4, 1e-4, -1e-4, -5e-3];
        rep.evaluations += 1;
        rep.begin(&format!("border walk {a:?} -> {b:?}"));
        let mut crossings = 0;
        let mut last_zone: Option<Tz> = None;
        for s in steps {
            let p = at((border + s / len_deg).clamp(0.0, 1.0));
            let expect = oracle(p.0, p.1);
            match lib(p.0, p.1) {
                Ok(got) if got == expect => {}
                Ok(got) => {
                    rep.violation("zone_inference", format!("from_coords({}, {}) infers {got}; the zone finder gives {expect} for these coordinates (previous lookup: {prev:?})", p.0, p.1), json!({"lat": p.0, "lon": p.1, "before": prev.map(|q| json!({"lat": q.0, "lon": q.1})), "part": "border"}), None);
                    break;
                }
                Err(msg) => {
                    rep.violation("panic", msg, json!({"lat": p.0, "lon": p.1, "part": "border"}), None);
                    break;
                }
            }
            if last_zone.is_some() && last_zone != Some(expect) {
                crossings += 1;
            }
            last_zone = Some(expect);
            prev = Some(p);
            rep.count("border_walk_lookups");
        }
        rep.add("border_crossings_between_consecutive_lookups", crossings);
        rep.nontrivial(crate::rng::hash64(&format!("border|{a:?}|{b:?}")));
        if rep.full() {
            return;
        }
    }
}

thread_local! {
    static SITE_CACHE: std::cell::RefCell<Option<((u64, u64), Tz, OpeningHours<TzLocation<Tz>>)>> = const { std::cell::RefCell::new(None) };
}

/// The per-day part of `check_site` for the every-day sweep: evaluation never panics, and below 60
/// degrees the events are ordered and the schedule shows the local event times.
fn check_site_day(lat: f64, lon: f64, date: NaiveDate) -> Result<(), String> {
    let key = (lat.to_bits(), lon.to_bits());
    let cached = SITE_CACHE.with(|c| c.borrow().as_ref().filter(|x| x.0 == key).map(|x| (x.1, x.2.clone())));
    let (tz, oh) = match cached {
        Some(x) => x,
        None => {
            let coords = Coordinates::new(lat, lon).ok_or_else(|| format!("valid pair ({lat}, {lon}) rejected"))?;
            let ctx = guarded(|| Context::from_coords(coords)).map_err(|p| format!("Context::from_coords({lat}, {lon}) panicked: {p}"))?;
            let tz = *ctx.locale.get_timezone();
            let oh = OpeningHours::parse("sunrise-sunset").unwrap().with_context(ctx);
            SITE_CACHE.with(|c| *c.borrow_mut() = Some((key, tz, oh.clone())));
            (tz, oh)
        }
    };
    let coords = Coordinates::new(lat, lon).unwrap();
    let sched: Vec<(u16, u16, RuleKind)> = guarded(|| oh.schedule_at(date).into_iter().map(|t| (t.range.start.mins_from_midnight(), t.range.end.mins_from_midnight(), t.kind)).collect()).map_err(|p| format!("schedule_at({date}) at ({lat}, {lon}) [{tz}] panicked: {p}"))?;
    if lat.abs() > 60.0 {
        return Ok(());
    }
    let ev = |e: TimeEvent| -> Result<DateTime<Utc>, String> { guarded(|| coords.event_time(date, e)).map_err(|p| format!("event_time({date}, {e:?}) at ({lat}, {lon}) panicked: {p}")) };
    let (dawn, sunrise, sunset, dusk) = (ev(TimeEvent::Dawn)?, ev(TimeEvent::Sunrise)?, ev(TimeEvent::Sunset)?, ev(TimeEvent::Dusk)?);
    if !(dawn < sunrise && sunrise < sunset && sunset < dusk) {
        return Err(format!("at ({lat}, {lon}) on {date}: dawn {dawn}, sunrise {sunrise}, sunset {sunset}, dusk {dusk} are not strictly increasing"));
    }
    let local = |t: DateTime<Utc>| t.with_timezone(&tz).naive_local();
    let (l_rise, l_set) = (local(sunrise), local(sunset));
    if l_rise.date() == date && l_set.date() == date {
        let m = |t: NaiveDateTime| (t.hour() * 60 + t.minute()) as u16;
        if !sched.iter().any(|r| r.2 == RuleKind::Open && r.0 == m(l_rise) && r.1 == m(l_set)) {
            return Err(format!("'sunrise-sunset' at ({lat}, {lon}) [{tz}] on {date}: schedule {sched:?} (minutes), local sunrise {l_rise} sunset {l_set}"));
        }
    }
    Ok(())
}

pub struct Site {
    pub lat: f64,
    pub lon: f64,
}

fn std_offset_hours(tz: Tz) -> f64 {
    // offset in January and July of 2021; the standard one is the smaller (DST adds)
    let a = tz.offset_from_utc_datetime(&NaiveDate::from_ymd_opt(2021, 1, 15).unwrap().and_hms_opt(12, 0, 0).unwrap()).fix().local_minus_utc();
    let b = tz.offset_from_utc_datetime(&NaiveDate::from_ymd_opt(2021, 7, 15).unwrap().and_hms_opt(12, 0, 0).unwrap()).fix().local_minus_utc();
    a.min(b) as f64 / 3600.0
}

thread_local! {
    /// whether `check_site` first evaluates the same coordinates under another explicit zone. Off
    /// where ANOTHER place is the history under test: the same coordinates evaluated just before
    /// would refresh a memo keyed on the date only and hide what that probe is after.
    static SAME_COORDS_HISTORY: std::cell::Cell<bool> = const { std::cell::Cell::new(true) };
}

/// 3-5. an accepted pair yields a zone and evaluates; physical ordering below 60 degrees
fn check_site(lat: f64, lon: f64, date: NaiveDate, rep: &mut Report) -> Result<(), String> {
    let coords = Coordinates::new(lat, lon).ok_or_else(|| format!("valid pair ({lat}, {lon}) rejected"))?;
    let loc = guarded(|| TzLocation::from_coords(coords)).map_err(|p| format!("TzLocation::from_coords({lat}, {lon}) panicked: {p}"))?;
    let ctx = guarded(|| Context::from_coords(coords)).map_err(|p| format!("Context::from_coords({lat}, {lon}) panicked: {p}"))?;
    let tz = *loc.get_timezone();
    if *ctx.locale.get_timezone() != tz {
        return Err(format!("Context::from_coords and TzLocation::from_coords disagree on the zone at ({lat}, {lon}): {} vs {tz}", ctx.locale.get_timezone()));
    }
    // hostile history (not judged itself): the same coordinates under another, explicit zone are
    // evaluated on the same dates just before the context under test
    let other_zone = if tz == chrono_tz::UTC { chrono_tz::Asia::Tokyo } else { chrono_tz::UTC };
    if SAME_COORDS_HISTORY.with(|h| h.get()) {
        let _ = guarded(|| {
            let h = OpeningHours::parse("dawn-dusk; sunrise-sunset unknown").unwrap().with_context(Context::default().with_locale(TzLocation::new(other_zone).with_coords(coords)));
            let _ = h.schedule_at(date);
            let _ = h.schedule_at(date.succ_opt().unwrap_or(date));
        });
        rep.count("hostile_history_same_coordinates_other_zone");
    }
    let oh = OpeningHours::parse("sunrise-sunset").unwrap().with_context(ctx.clone());
    let oh2 = OpeningHours::parse("dawn-dusk").unwrap().with_context(ctx);
    // the very first evaluation in this context is kept and judged below (so that whatever was
    // evaluated before - another place, another date - cannot leak into it unnoticed)
    let first_schedule: Vec<(u16, u16)> = guarded(|| oh.schedule_at(date).into_iter().filter(|t| t.kind == RuleKind::Open).map(|t| (t.range.start.mins_from_midnight(), t.range.end.mins_from_midnight())).collect())
        .map_err(|p| format!("schedule_at({date}) at ({lat}, {lon}) panicked: {p}"))?;
    // evaluation never panics, wherever the pair is
    let noon_guess = tz.from_utc_datetime(&(date.and_hms_opt(12, 0, 0).unwrap() - Duration::seconds((lon * 240.0) as i64)));
    guarded(|| {
        let _ = oh.state(noon_guess.clone());
        let _ = oh2.state(noon_guess.clone());
        let _ = oh.schedule_at(date);
        let _ = oh2.schedule_at(date);
        let _ = oh.iter_range(noon_guess.clone(), noon_guess.clone() + Duration::days(3)).count();
    })
    .map_err(|p| format!("evaluation at ({lat}, {lon}) on {date} in {tz} panicked: {p}"))?;
    rep.count("sites_evaluated");
    if lat.abs() > 60.0 {
        rep.count("sites_above_60_degrees_totality_only");
        return Ok(());
    }
    // inferred zone vs mean solar time
    let solar = lon / 15.0;
    let mut diff = (std_offset_hours(tz) - solar).rem_euclid(24.0);
    if diff > 12.0 {
        diff -= 24.0;
    }
    rep.max("max_zone_vs_solar_time_minutes", (diff.abs() * 60.0) as u64);
    if diff.abs() > 5.0 {
        return Err(format!("zone inferred at ({lat}, {lon}) is {tz} (standard offset {:+.2} h), {diff:+.2} h away from mean solar time {solar:+.2} h", std_offset_hours(tz)));
    }
    // physical ordering on instants
    let ev = |e: TimeEvent| -> Result<DateTime<Utc>, String> { guarded(|| coords.event_time(date, e)).map_err(|p| format!("event_time({date}, {e:?}) at ({lat}, {lon}) panicked: {p}")) };
    let (dawn, sunrise, sunset, dusk) = (ev(TimeEvent::Dawn)?, ev(TimeEvent::Sunrise)?, ev(TimeEvent::Sunset)?, ev(TimeEvent::Dusk)?);
    let noon = sunrise + (sunset - sunrise) / 2;
    if !(dawn < sunrise && sunrise < noon && noon < sunset && sunset < dusk) {
        return Err(format!("at ({lat}, {lon}) on {date}: dawn {dawn}, sunrise {sunrise}, solar noon {noon}, sunset {sunset}, dusk {dusk} are not strictly increasing"));
    }
    // solar noon is near 12:00 mean solar time of `date`
    let expected_noon = date.and_hms_opt(12, 0, 0).unwrap() - Duration::seconds((lon * 240.0) as i64);
    let off = (noon.naive_utc() - expected_noon).num_minutes().abs();
    rep.max("max_noon_vs_mean_solar_noon_minutes", off as u64);
    if off > 25 {
        return Err(format!("at ({lat}, {lon}) on {date}: solar noon {noon} is {off} min away from 12:00 mean solar time ({expected_noon} UTC)"));
    }
    // local times and evaluation
    let local = |t: DateTime<Utc>| t.with_timezone(&tz).naive_local();
    let (l_dawn, l_rise, l_noon, l_set, l_dusk) = (local(dawn), local(sunrise), local(noon), local(sunset), local(dusk));
    let same_day = [l_dawn, l_rise, l_noon, l_set, l_dusk].iter().all(|t| t.date() == date);
    if !same_day {
        rep.count("abstained_wrap");
        return Ok(());
    }
    // the schedule of the day shows exactly the local event times (minute resolution)
    let open: Vec<(u16, u16)> = oh.schedule_at(date).into_iter().filter(|t| t.kind == RuleKind::Open).map(|t| (t.range.start.mins_from_midnight(), t.range.end.mins_from_midnight())).collect();
    let m = |t: NaiveDateTime| (t.hour() * 60 + t.minute()) as u16;
    if first_schedule != open {
        return Err(format!("'sunrise-sunset' at ({lat}, {lon}) [{tz}] on {date}: the first evaluation in this context gave open {first_schedule:?}, a later one {open:?} (minutes)"));
    }
    // (other open ranges can be yesterday's span passing local midnight at high latitude)
    if !open.contains(&(m(l_rise), m(l_set))) {
        return Err(format!("'sunrise-sunset' at ({lat}, {lon}) [{tz}] on {date}: open {open:?} (minutes), local sunrise {l_rise} sunset {l_set}"));
    }
    let open2: Vec<(u16, u16)> = oh2.schedule_at(date).into_iter().filter(|t| t.kind == RuleKind::Open).map(|t| (t.range.start.mins_from_midnight(), t.range.end.mins_from_midnight())).collect();
    if !open2.contains(&(m(l_dawn), m(l_dusk))) {
        return Err(format!("'dawn-dusk' at ({lat}, {lon}) [{tz}] on {date}: open {open2:?} (minutes), local dawn {l_dawn} dusk {l_dusk}"));
    }
    let noon_i = tz.from_utc_datetime(&noon.naive_utc());
    let st = oh.state(noon_i.clone());
    if st != RuleKind::Open {
        return Err(format!("'sunrise-sunset' at ({lat}, {lon}) [{tz}] is {st} at solar noon {noon_i}"));
    }
    for mid in [noon_i.clone() + Duration::hours(12), noon_i.clone() - Duration::hours(12)] {
        let st = oh.state(mid.clone());
        if st != RuleKind::Closed {
            return Err(format!("'sunrise-sunset' at ({lat}, {lon}) [{tz}] is {st} at solar midnight {mid}"));
        }
    }
    rep.count("sites_with_physical_ordering_checked");
    Ok(())
}

fn gen_date(r: &mut Rng) -> NaiveDate {
    let y = r.range(1900, 2100) as i32;
    match r.below(6) {
        0 => NaiveDate::from_ymd_opt(y, 6, 21).unwrap(),
        1 => NaiveDate::from_ymd_opt(y, 12, 21).unwrap(),
        2 => NaiveDate::from_ymd_opt(y, 3, 20).unwrap(),
        3 => NaiveDate::from_ymd_opt(y, 9, 22).unwrap(),
        _ => NaiveDate::from_yo_opt(y.max(1901), 1 + r.below(365) as u32).unwrap(),
    }
}

pub fn run(args: &Args, rep: &mut Report) {
    // cities (worker 0)
    if args.worker == 0 {
        for (name, lat, lon, zone) in CITIES {
            rep.evaluations += 1;
            let c = Coordinates::new(lat, lon).unwrap();
            match guarded(|| *TzLocation::from_coords(c).get_timezone()) {
                Ok(tz) => {
                    // aliases are fine: compare offsets over a year rather than names
                    let want: Tz = zone.parse().unwrap();
                    let same = (0..24).all(|k| {
                        let t = NaiveDate::from_ymd_opt(2021, 1 + k / 2, 1 + 14 * (k % 2)).unwrap().and_hms_opt(12, 0, 0).unwrap();
                        tz.offset_from_utc_datetime(&t).fix() == want.offset_from_utc_datetime(&t).fix()
                    });
                    if !same {
                        rep.violation("city_zone", format!("{name} ({lat}, {lon}) is mapped to {tz}, expected {zone}"), json!({"lat": lat, "lon": lon, "date": "2021-06-21"}), None);
                    }
                    rep.count("cities_checked");
                }
                Err(p) => rep.violation("panic", format!("from_coords for {name} panicked: {p}"), json!({"lat": lat, "lon": lon, "date": "2021-06-21"}), None),
            }
        }
        // the grid of the globe, 5 degrees, one date per node: totality and zone/solar-time bound
        let mut lat = -90.0;
        while lat <= 90.0 {
            let mut lon = -180.0;
            while lon <= 180.0 {
                let date = NaiveDate::from_ymd_opt(2024, 6, 21).unwrap();
                rep.evaluations += 1;
                if let Err(msg) = check_site(lat, lon, date, rep) {
                    rep.violation("sun_events", msg, json!({"lat": lat, "lon": lon, "date": date.to_string()}), None);
                }
                rep.count("grid_nodes");
                lon += 5.0;
            }
            lat += 5.0;
        }
    }
    sentinel_probe(args, rep);
    border_walks(args, rep);
    if rep.full() {
        return;
    }
    // every day 1900..2100 at fixed sites: the 40 cities (quick and thorough) and, in the thorough
    // tier, every node of the 5-degree grid up to 60 degrees - coincidences between an event time
    // and a clock boundary (an event at exactly 00:00:00 local) need the right day at the right place
    {
        let mut sites: Vec<(f64, f64)> = CITIES.iter().map(|c| (c.1, c.2)).collect();
        if args.thorough() {
            let mut lat = -60.0;
            while lat <= 60.0 {
                let mut lon = -180.0;
                while lon < 180.0 {
                    sites.push((lat, lon));
                    lon += 5.0;
                }
                lat += 5.0;
            }
        } else {
            // quick: the grid rows nearest to the polar circles as well, on a stride of 10 degrees
            for lat in [-60.0, -55.0, 55.0, 60.0] {
                let mut lon = -180.0 + (args.seed % 10) as f64;
                while lon < 180.0 {
                    sites.push((lat, lon));
                    lon += 10.0;
                }
            }
        }
        let mut idx = 0u64;
        'sites: for (lat, lon) in sites {
            // years sharded over the workers, so that every site's cost is spread
            for y in 1900..=2100 {
                idx += 1;
                if (idx - 1) % args.of.max(1) != args.worker {
                    continue;
                }
                let mut d = NaiveDate::from_ymd_opt(y, 1, 1).unwrap();
                rep.begin(&format!("every-day sweep ({lat}, {lon}) {y}"));
                while d.year() == y {
                    rep.count("site_days_swept");
                    if let Err(msg) = check_site_day(lat, lon, d) {
                        rep.violation("sun_events", format!("{msg} (every-day sweep at fixed sites)"), json!({"lat": lat, "lon": lon, "date": d.to_string()}), None);
                        if rep.full() {
                            break 'sites;
                        }
                        break;
                    }
                    d = d.succ_opt().unwrap();
                }
            }
        }
        rep.evaluations += 1;
    }
    // Exhaustive over dates: the defaults on EVERY day of the supported range (years sharded)
    {
        let of = args.of.max(1) as i32;
        let mut bad = 0;
        let sweep = DefaultSweep::new();
        'years: for y in 1900..=9999i32 {
            if y % of != args.worker as i32 {
                continue;
            }
            let mut d = NaiveDate::from_ymd_opt(y, 1, 1).unwrap();
            while d.year() == y {
                if d > NaiveDate::from_ymd_opt(1900, 1, 1).unwrap() {
                    rep.count("default_event_days_swept");
                    if let Err(msg) = sweep.check(d) {
                        rep.violation("default_events", msg, json!({"part": "defaults_sweep", "date": d.to_string()}), None);
                        bad += 1;
                        if bad > 3 {
                            break 'years;
                        }
                    }
                }
                d = match d.succ_opt() {
                    Some(n) => n,
                    None => break,
                };
            }
        }
        rep.evaluations += 1;
    }
    let n = args.cases(400_000, 4_000_000);
    for k in 0..n {
        let mut r = Rng::new(args.seed, args.worker, k);
        rep.evaluations += 1;
        if let Err(msg) = check_defaults(&mut r, rep) {
            rep.violation("default_events", msg, json!({"seed": args.seed, "worker": args.worker, "index": k, "part": "defaults"}), None);
        }
        for _ in 0..4 {
            if let Err(msg) = check_acceptance(&mut r, rep) {
                rep.violation("coordinate_acceptance", msg, json!({"seed": args.seed, "worker": args.worker, "index": k, "part": "acceptance"}), None);
            }
        }
        let (lat, lon) = match r.below(10) {
            0 => (*r.pick(&[90.0, -90.0, 89.9999, -89.9999, 60.0, -60.0, 59.9999, 66.6, -66.6]), (r.f64() * 360.0 - 180.0)),
            1 => ((r.f64() * 180.0 - 90.0), *r.pick(&[180.0, -180.0, 179.9999, -179.9999, 0.0])),
            2..=3 => {
                let c = r.pick(&CITIES);
                (c.1 + (r.f64() - 0.5) * 0.2, c.2 + (r.f64() - 0.5) * 0.2)
            }
            _ => ((r.f64() * 120.0 - 60.0), (r.f64() * 360.0 - 180.0)),
        };
        let date = gen_date(&mut r);
        rep.begin(&format!("({lat}, {lon}) {date}"));
        // evaluation history must not matter: another place is evaluated on the neighbouring
        // dates immediately before (a memoised solar day keyed on too little would be reused)
        if k % 2 == 0 {
            SAME_COORDS_HISTORY.with(|h| h.set(false));
            let c = r.pick(&CITIES);
            for d in [date.succ_opt(), Some(date), date.pred_opt()].into_iter().flatten() {
                if let Err(msg) = check_site(c.1, c.2, d, rep) {
                    rep.violation("sun_events", msg, json!({"lat": c.1, "lon": c.2, "date": d.to_string()}), None);
                }
                if d != date {
                    if let Err(msg) = check_site(lat, lon, date, rep) {
                        rep.violation("sun_events", format!("after evaluating {} on {d}: {msg}", c.0), json!({"lat": lat, "lon": lon, "date": date.to_string(), "before": {"lat": c.1, "lon": c.2, "date": d.to_string()}}), None);
                        break;
                    }
                }
            }
            rep.count("history_interference_probes");
            SAME_COORDS_HISTORY.with(|h| h.set(true));
        }
        match check_site(lat, lon, date, rep) {
            Ok(()) => {
                rep.nontrivial(crate::rng::hash64(&format!("{lat}|{lon}|{date}")));
                if k < 2 {
                    rep.sample(|| {
                        let c = Coordinates::new(lat, lon).unwrap();
                        let tz = *TzLocation::from_coords(c).get_timezone();
                        json!({"lat": lat, "lon": lon, "date": date.to_string(), "zone": tz.name(), "sunrise_utc": c.event_time(date, TimeEvent::Sunrise).to_string(), "sunset_utc": c.event_time(date, TimeEvent::Sunset).to_string()})
                    });
                }
            }
            Err(msg) => {
                rep.violation("sun_events", msg, json!({"lat": lat, "lon": lon, "date": date.to_string()}), None);
                if rep.full() {
                    break;
                }
            }
        }
    }
    rep.require("sites_with_physical_ordering_checked", 10_000);
    rep.require("default_event_checks", 10_000);
    rep.require("pairs_accepted", 10_000);
    rep.require("pairs_rejected", 10_000);
}

pub fn replay(case: &Value, rep: &mut Report) {
    rep.evaluations += 1;
    if let (Some(lat), Some(lon), Some(date)) = (case["before"]["lat"].as_f64(), case["before"]["lon"].as_f64(), case["before"]["date"].as_str().and_then(|s| s.parse::<NaiveDate>().ok())) {
        SAME_COORDS_HISTORY.with(|h| h.set(false));
        let _ = check_site(lat, lon, date, rep);
    }
    if let (Some(lat), Some(lon), Some(date)) = (case["lat"].as_f64(), case["lon"].as_f64(), case["date"].as_str().and_then(|s| s.parse::<NaiveDate>().ok())) {
        if let Err(msg) = check_site(lat, lon, date, rep) {
            rep.violation("sun_events", msg, case.clone(), None);
        }
    } else if let (Some("border"), Some(lat), Some(lon)) = (case["part"].as_str(), case["lat"].as_f64(), case["lon"].as_f64()) {
        static ORACLE: std::sync::LazyLock<tzf_rs::DefaultFinder> = std::sync::LazyLock::new(tzf_rs::DefaultFinder::new);
        if let (Some(blat), Some(blon)) = (case["before"]["lat"].as_f64(), case["before"]["lon"].as_f64()) {
            if let Some(c) = Coordinates::new(blat, blon) {
                let _ = guarded(|| *TzLocation::from_coords(c).get_timezone());
            }
        }
        let expect = ORACLE.get_tz_name(lon, lat).parse::<Tz>().unwrap_or(chrono_tz::UTC);
        if let Some(c) = Coordinates::new(lat, lon) {
            match guarded(|| *TzLocation::from_coords(c).get_timezone()) {
                Ok(got) if got == expect => {}
                Ok(got) => rep.violation("zone_inference", format!("from_coords({lat}, {lon}) infers {got}; the zone finder gives {expect} for these coordinates (after the recorded previous lookup)"), case.clone(), None),
                Err(p) => rep.violation("panic", format!("from_coords({lat}, {lon}) panicked: {p}"), case.clone(), None),
            }
        }
    } else if let (Some("defaults_sweep"), Some(d)) = (case["part"].as_str(), case["date"].as_str().and_then(|s| s.parse::<NaiveDate>().ok())) {
        if let Err(msg) = DefaultSweep::new().check(d) {
            rep.violation("default_events", msg, case.clone(), None);
        }
    } else if let (Some(seed), Some(w), Some(i)) = (case["seed"].as_u64(), case["worker"].as_u64(), case["index"].as_u64()) {
        let mut r = Rng::new(seed, w, i);
        if let Err(msg) = check_defaults(&mut r, rep) {
            rep.violation("default_events", msg, case.clone(), None);
        }
        for _ in 0..4 {
            if let Err(msg) = check_acceptance(&mut r, rep) {
                rep.violation("coordinate_acceptance", msg, case.clone(), None);
            }
        }
    }
}

#[allow(dead_code)]
fn _u(d: NaiveDate) -> i32 {
    d.year()
}
