//! C07 — Normalization does not change the meaning of an expression.

use super::c02::build;
use super::common::*;
use crate::evalcmp;
use crate::gen::ctx::HolSpec;
use crate::gen::dates;
use crate::gen::expr::{self, GenCfg};
use crate::known::{self, Classified};
use crate::out::{guarded, Args, Report};
use crate::render;
use crate::rng::Rng;
use opening_hours_syntax::rules::{OpeningHoursExpression, RuleOperator};
use serde_json::{json, Value};

pub fn canonical_cfg(thorough: bool, k: u64) -> GenCfg {
    let mut cfg = GenCfg::standard(thorough).rotated(k);
    cfg.canonical_pct = if k % 5 == 0 { 30 } else { 80 };
    cfg.focus_pct = 0;
    cfg.comments_pct = 30;
    cfg.max_rules = if thorough { 6 } else { 4 };
    cfg
}

pub struct Observed {
    pub rules_before: usize,
    pub rules_after: usize,
    pub additional_emitted: bool,
    pub changed: bool,
}

pub fn check(text: &str, ast: &OpeningHoursExpression, hol: &HolSpec, r: &mut Rng, sweep: i64) -> Result<Observed, String> {
    let oh = build(text, hol).ok_or_else(|| format!("{text:?} rejected by OpeningHours::parse"))?;
    let norm = guarded(|| oh.normalize()).map_err(|p| format!("normalize panicked: {p}"))?;
    let n_ast = guarded(|| ast.clone().normalize()).map_err(|p| format!("normalize panicked: {p}"))?;
    let days = evalcmp::comparison_days(&[ast, &n_ast], hol, r, 64, 40, sweep);
    if let Some((d, diff)) = evalcmp::first_difference(&oh, &norm, &days, false)? {
        return Err(format!("normalizes to {:?}, which evaluates differently {diff} (original vs normalized)", norm.to_string()));
    }
    // state at a few instants as well
    let minutes = dates::interesting_minutes(ast);
    for d in days.iter().take(12) {
        for m in minutes.iter().take(4) {
            let t = dates::dt(*d, *m);
            let (a, b) = guarded(|| (oh.state(t), norm.state(t))).map_err(|p| format!("state panicked: {p}"))?;
            if a != b {
                return Err(format!("normalizes to {:?}: state({t}) = {a} for the original, {b} for the normal form", norm.to_string()));
            }
        }
    }
    Ok(Observed {
        rules_before: ast.rules.len(),
        rules_after: n_ast.rules.len(),
        additional_emitted: n_ast.rules.iter().skip(1).any(|x| x.operator == RuleOperator::Additional) && !ast.rules.iter().any(|x| x.operator == RuleOperator::Additional),
        changed: n_ast != *ast,
    })
}

fn report_failure(args: &Args, rep: &mut Report, ast: &OpeningHoursExpression, hol: &HolSpec, msg: &str) {
    let fails = |c: &OpeningHoursExpression| -> Option<String> {
        let mut r = Rng::new(5, 0, 0);
        check(&render::plain(c), c, hol, &mut r, 0).err()
    };
    let classified = known::classify(&args.known, ast, &|c| denotable(c), &mut |c| fails(c).is_some(), 500);
    let (small, known) = match classified {
        Classified::Unexplained(s) => (s, None),
        Classified::Explained(s, t) => (s, Some(t)),
    };
    let text = render::plain(&small);
    let what = fails(&small).unwrap_or_else(|| msg.to_string());
    rep.violation("normalization_changes_meaning", format!("{text:?} [{}]: {what}", hol.to_string()), json!({"expr": text, "holidays": hol.to_string()}), known);
}

/// Size family: K pairwise different rules (own year, weekday and minutes) followed by one rule of
/// another kind that overlaps many of them, K on a ladder 1..64, then 2^k - 1, 2^k, 2^k + 1 up to
/// 4097: thresholds on the number of rules of the input or of the normal form are crossed one rung
/// at a time. `text` is generated from (K, variant), so a replay is self-contained.
pub fn many_rules_text(k: usize, variant: u64) -> String {
    let wds = ["Mo", "Tu", "We", "Th", "Fr", "Sa", "Su"];
    // variant = 3 * (separator pattern) + (kind of the late rule)
    let sep = |i: usize| match variant / 3 {
        0 => ", ",
        1 => " ; ",
        _ => [", ", " ; ", ", "][i % 3],
    };
    let mut text = String::new();
    for i in 0..k {
        let m = (i * 7) % 1380;
        if i > 0 {
            text += sep(i);
        }
        text += &format!("{} {} {:02}:{:02}-{:02}:{:02}", 1900 + i, wds[i % 7], m / 60, m % 60, (m + 3) / 60, (m + 3) % 60);
    }
    text + [", Mo 23:00-23:30 unknown", "; Mo-We 23:00-23:30 unknown", " || Tu 23:10-23:20 unknown"][(variant % 3) as usize]
}

pub fn check_many_rules(k: usize, variant: u64) -> Result<usize, String> {
    use chrono::{Datelike, Duration, NaiveDate, Weekday};
    let text = many_rules_text(k, variant);
    let oh = build(&text, &HolSpec::None).ok_or_else(|| format!("{} rules rejected by OpeningHours::parse", k + 1))?;
    let norm = guarded(|| oh.normalize()).map_err(|p| format!("normalize panicked on {} rules: {p}", k + 1))?;
    // days: for sampled rules (first, last, around every power of two) the first matching weekday of
    // their year, the Monday..Wednesday of that week and of the following one
    let mut idx: Vec<usize> = vec![0, k / 2, k.saturating_sub(1), k.saturating_sub(2)];
    let mut p = 1;
    while p <= k {
        idx.extend([p - 1, p, p + 1]);
        p *= 2;
    }
    let mut days = Vec::new();
    for i in idx.into_iter().filter(|i| *i < k) {
        let wd = [Weekday::Mon, Weekday::Tue, Weekday::Wed, Weekday::Thu, Weekday::Fri, Weekday::Sat, Weekday::Sun][i % 7];
        let mut d = NaiveDate::from_ymd_opt(1900 + i as i32, 1, 2).unwrap();
        while d.weekday() != wd {
            d = d.succ_opt().unwrap();
        }
        for off in -7..=9 {
            days.push(d + Duration::days(off));
        }
    }
    days.retain(|d| dates::in_range(*d) && *d != dates::min_day());
    days.sort();
    days.dedup();
    if let Some((_, diff)) = evalcmp::first_difference(&oh, &norm, &days, false)? {
        let n = norm.to_string();
        return Err(format!("{} rules ({k} pairwise different ones and a late overlapping rule, variant {variant}): the normal form ({} rules, ends with {:?}) evaluates differently {diff} (original vs normalized)", k + 1, n.matches(';').count() + n.matches(',').count() + 1, &n[n.len().saturating_sub(60)..]));
    }
    Ok(days.len())
}


/// Wide selector lists: ONE rule whose year selector (or time selector) holds `n` disjoint ranges, so
/// that a single dimension of the normalization's paving has 2n cuts, followed by a second rule
/// whose range starts in the middle of one of them / on a cut / spans several / lies in a gap.
/// `variant` < 108: position (3) x shape of the second range (4) x its hours (3) x separator (3);
/// variant >= 108 (12 more): the same idea along the time dimension (spans of 2 minutes every 4).
pub const WIDE_VARIANTS: u64 = 120;

pub fn wide_list_text(n: usize, variant: u64) -> (String, Vec<chrono::NaiveDate>) {
    use chrono::{Datelike, Duration, NaiveDate, Weekday};
    let n = n.max(1);
    let mut days = Vec::new();
    if variant < 108 {
        let n = n.min(2000);
        let (pos, shape, hours, sep) = (variant % 3, (variant / 3) % 4, (variant / 12) % 3, (variant / 36) % 3);
        let p = [n / 2, 0, n - 1][pos as usize];
        let years: Vec<String> = (0..n).map(|i| format!("{}-{}", 1904 + 4 * i, 1905 + 4 * i)).collect();
        let y = 1904 + 4 * p as i32;
        let (a, b) = [(y + 1, y + 2), (y, y + 2), (y + 1, y + 9), (y + 2, y + 3)][shape as usize];
        let second = ["10:00-12:00", "11:00-13:00 unknown", "14:00-16:00"][hours as usize];
        let text = format!("{} 10:00-12:00{}{a}-{} {second}", years.join(","), [", ", " ; ", " || "][sep as usize], b.min(9999));
        for yy in (y - 5)..=(y + 11) {
            for (m, d) in [(1, 1), (6, 15), (12, 31)] {
                if let Some(x) = NaiveDate::from_ymd_opt(yy, m, d) {
                    days.push(x);
                }
            }
        }
        for yy in [1904, 1905, 1906, 1904 + 4 * (n as i32 - 1), 1905 + 4 * (n as i32 - 1), 1906 + 4 * (n as i32 - 1), 1904 + 4 * 32, 1905 + 4 * 32, 1906 + 4 * 32] {
            if let Some(x) = NaiveDate::from_ymd_opt(yy, 3, 3) {
                days.push(x);
            }
        }
        (text, days)
    } else {
        let v = variant - 108;
        let n = n.min(350);
        let (pos, shape, sep) = (v % 2, (v / 2) % 3, (v / 6) % 2);
        let p = [n / 2, n - 1][pos as usize] as u32;
        let hm = |m: u32| format!("{:02}:{:02}", m / 60, m % 60);
        let spans: Vec<String> = (0..n as u32).map(|i| format!("{}-{}", hm(4 * i), hm(4 * i + 2))).collect();
        let (a, b) = [(4 * p + 1, 4 * p + 3), (4 * p, 4 * p + 3), (4 * p + 1, 4 * p + 11)][shape as usize];
        let text = format!("Mo {}{}Mo {}-{} unknown", spans.join(","), [", ", " ; "][sep as usize], hm(a), hm(b.min(1440)));
        let mut d = NaiveDate::from_ymd_opt(2024, 1, 1).unwrap();
        while d.weekday() != Weekday::Mon {
            d = d.succ_opt().unwrap();
        }
        for k in -1..=8 {
            days.push(d + Duration::days(k));
        }
        (text, days)
    }
}

pub fn check_wide_list(n: usize, variant: u64) -> Result<usize, String> {
    let (text, mut days) = wide_list_text(n, variant);
    let oh = build(&text, &HolSpec::None).ok_or_else(|| format!("wide list ({n} ranges, variant {variant}) rejected by OpeningHours::parse: {}", &text[text.len().saturating_sub(80)..]))?;
    let norm = guarded(|| oh.normalize()).map_err(|p| format!("normalize panicked on a wide list of {n} ranges (variant {variant}): {p}"))?;
    days.retain(|d| dates::in_range(*d) && *d != dates::min_day());
    days.sort();
    days.dedup();
    if let Some((_, diff)) = evalcmp::first_difference(&oh, &norm, &days, false)? {
        let nf = norm.to_string();
        return Err(format!("one rule with {n} disjoint ranges in one selector and a second rule (variant {variant}; input ends with {:?}): the normal form (ends with {:?}) evaluates differently {diff} (original vs normalized)", &text[text.len().saturating_sub(60)..], &nf[nf.len().saturating_sub(70)..]));
    }
    Ok(days.len())
}

pub fn wide_ladder(thorough: bool) -> Vec<(usize, u64)> {
    let mut v = Vec::new();
    let mut ns: Vec<usize> = (1..=40).collect();
    for e in 6..=(if thorough { 10 } else { 8 }) {
        ns.extend([(1usize << e) - 1, 1 << e, (1 << e) + 1]);
    }
    for n in ns {
        for variant in 0..WIDE_VARIANTS {
            // beyond 40 ranges: the twelve variants of each dimension that differ in position and shape
            if n > 40 && !(variant < 12 || (36..48).contains(&variant) || variant >= 108) {
                continue;
            }
            v.push((n, variant));
        }
    }
    v
}

fn wide_lists(args: &Args, rep: &mut Report) {
    for (i, (n, variant)) in wide_ladder(args.thorough()).into_iter().enumerate() {
        if (i as u64) % args.of.max(1) != args.worker || rep.full() {
            continue;
        }
        rep.evaluations += 1;
        rep.begin(&format!("wide list: n = {n}, variant {variant}"));
        match check_wide_list(n, variant) {
            Ok(_) => {
                rep.count("wide_list_expressions");
                rep.max("wide_list_max_ranges", n as u64);
            }
            Err(msg) => rep.violation("normalization_changes_meaning", msg, json!({"wide_list": n, "variant": variant}), None),
        }
    }
}

fn many_rules(args: &Args, rep: &mut Report) {
    let mut ks: Vec<usize> = (1..=64).collect();
    for e in 7..=12 {
        ks.extend([(1usize << e) - 1, 1 << e, (1 << e) + 1]);
    }
    let mut idx = 0u64;
    for k in ks {
        for variant in 0..9u64 {
            // rules joined by ';' make the paving grow with every rule (7 s at 513 rules, 46 s at 1025,
            // 3 min at 2049, 12 min at 4097): those variants stop at 257 rules in the quick tier and at
            // 2049 in the thorough one; the all-additional variant climbs the whole ladder
            if variant >= 3 && k > if args.thorough() { 2049 } else { 257 } {
                continue;
            }
            idx += 1;
            if (idx - 1) % args.of.max(1) != args.worker {
                continue;
            }
            rep.evaluations += 1;
            rep.begin(&format!("many rules: K = {k}, variant {variant}"));
            match check_many_rules(k, variant) {
                Ok(_) => {
                    rep.count("many_rules_expressions");
                    rep.max("many_rules_max_rules", k as u64 + 1);
                }
                Err(msg) => {
                    rep.violation("normalization_changes_meaning", msg, json!({"many_rules": k, "variant": variant}), None);
                    if rep.full() {
                        return;
                    }
                }
            }
        }
    }
}


/// String-level source: token-mutated sample lines and rendered sentences that still parse (they
/// reach parsed values the AST generator does not build); original vs normalized, evaluated.
fn mutated_strings(args: &Args, rep: &mut Report) {
    let samples = super::c04::sample_lines();
    let n = args.cases(30_000, 500_000);
    for k in 0..n {
        if rep.full() || samples.is_empty() {
            return;
        }
        let mut r = Rng::new(args.seed ^ 0x6d76, args.worker, k);
        let base = if k % 2 == 0 {
            samples[r.below(samples.len() as u64) as usize].clone()
        } else {
            let cfg = canonical_cfg(false, k);
            let ast = expr::gen_expr(&mut r, &cfg);
            let mut v = render::Variants::random(Rng::new(args.seed ^ 11, args.worker, k));
            render::expr(&mut v, &ast)
        };
        let text = super::c04::mutate(&mut r, &base);
        let Ok(ast) = lib_parse(&text) else {
            rep.count("mutated_strings_rejected_by_parser");
            continue;
        };
        rep.evaluations += 1;
        rep.begin(&text);
        match check(&text, &ast, &HolSpec::None, &mut r, 0) {
            Ok(_) => {
                rep.count("mutated_strings_compared");
                rep.nontrivial(crate::rng::hash64(&text));
            }
            Err(msg) => match known::explained_by(&args.known, &ast) {
                Some(t) => rep.violation("normalization_changes_meaning", format!("{text:?} [none]: {msg}"), json!({"expr": text, "holidays": "none"}), Some(t)),
                None => rep.violation("normalization_changes_meaning", format!("{text:?} [none]: {msg}"), json!({"expr": text, "holidays": "none"}), None),
            },
        }
    }
}

pub fn run(args: &Args, rep: &mut Report) {
    mutated_strings(args, rep);
    if rep.full() {
        return;
    }
    many_rules(args, rep);
    if rep.full() {
        return;
    }
    wide_lists(args, rep);
    if rep.full() {
        return;
    }
    let n = args.cases(360_000, 3_000_000);
    let sweep = if args.thorough() { 800 } else { 0 };
    // combination grid: pairs / triples of canonical rules over plain and wrapping ranges
    for (i, text) in normalize_grid(args.thorough(), args.seed).iter().enumerate() {
        if (i as u64) % args.of.max(1) != args.worker {
            continue;
        }
        let Ok(ast) = lib_parse(text) else {
            rep.count("combination_grid_skipped_parser_rejects");
            continue;
        };
        rep.evaluations += 1;
        rep.begin(text);
        let mut r = Rng::new(args.seed, 0x9c1d, i as u64);
        match check(text, &ast, &HolSpec::None, &mut r, 0) {
            Ok(o) => {
                rep.count("combination_grid_expressions");
                if o.changed {
                    rep.count("combination_grid_normal_form_differs");
                    rep.nontrivial(crate::rng::hash64(&format!("{ast:?}")));
                }
            }
            Err(msg) => {
                report_failure(args, rep, &ast, &HolSpec::None, &msg);
                if rep.full() {
                    return;
                }
            }
        }
    }
    // exhaustive part: every value of every atomic field, alone and followed by a second canonical
    // rule (so that the paving has something to fold it with)
    for (i, ast) in atomic_asts().iter().enumerate() {
        if (i as u64) % args.of.max(1) != args.worker {
            continue;
        }
        let mut r = Rng::new(args.seed, 0xa70, i as u64);
        let mut variants = vec![ast.clone()];
        if let Ok(second) = lib_parse("Mo-Fr 09:00-17:00") {
            let mut two = ast.clone();
            two.rules.extend(second.rules);
            variants.push(two);
        }
        for v in variants {
            rep.evaluations += 1;
            let text = render::plain(&v);
            match check(&text, &v, &HolSpec::None, &mut r, 0) {
                Ok(_) => rep.count("atomic_values_enumerated"),
                Err(msg) => {
                    report_failure(args, rep, &v, &HolSpec::None, &msg);
                    if rep.full() {
                        return;
                    }
                }
            }
        }
    }
    for k in 0..n {
        let cfg = canonical_cfg(args.thorough(), k);
        let case = gen_case(args, k, &cfg, rep);
        let mut r = case.rng.clone();
        rep.evaluations += 1;
        rep.begin(&case.text);
        if lib_parse(&case.text).ok().as_ref() != Some(&case.ast) {
            rep.count("skipped_parser_differs");
            continue;
        }
        coverage_of(&case.ast, rep);
        match check(&case.text, &case.ast, &case.hol, &mut r, sweep) {
            Ok(o) => {
                rep.count("expressions_compared");
                if o.changed {
                    rep.count("normal_form_differs_from_input");
                }
                if o.rules_after < o.rules_before {
                    rep.count("rules_folded");
                }
                if o.additional_emitted {
                    rep.count("additional_rule_emitted");
                }
                if o.rules_before >= 2 && o.changed {
                    rep.nontrivial(crate::rng::hash64(&format!("{:?}", case.ast)));
                }
                if k < 3 {
                    rep.sample(|| json!({"expr": case.text, "normal_form": case.ast.clone().normalize().to_string(), "holidays": case.hol.to_string()}));
                }
            }
            Err(msg) => {
                report_failure(args, rep, &case.ast, &case.hol, &msg);
                if rep.full() {
                    break;
                }
            }
        }
    }
    for (i, text) in corpus().iter().enumerate() {
        if (i as u64) % args.of.max(1) != args.worker {
            continue;
        }
        let Ok(ast) = lib_parse(text) else { continue };
        let hol = if has_holiday_selector(&ast) { HolSpec::Country("FR".into()) } else { HolSpec::None };
        let mut r = Rng::new(args.seed, 0xc0c0, i as u64);
        rep.evaluations += 1;
        match check(text, &ast, &hol, &mut r, 800) {
            Ok(_) => rep.count("corpus_expressions_compared"),
            Err(msg) => rep.violation("normalization_changes_meaning", format!("{text:?} [{}] (from the repository's sample/test sources): {msg}", hol.to_string()), json!({"expr": text, "holidays": hol.to_string()}), known::explained_by(&args.known, &ast)),
        }
    }
    rep.require("expressions_compared", 20_000);
    rep.require("rules_folded", 1_000);
    rep.require("additional_rule_emitted", 100);
    rep.require("normal_form_differs_from_input", 5_000);
}

pub fn replay(args: &Args, case: &Value, rep: &mut Report) {
    if let Some(n) = case["wide_list"].as_u64() {
        rep.evaluations += 1;
        if let Err(msg) = check_wide_list(n as usize, case["variant"].as_u64().unwrap_or(0)) {
            rep.violation("normalization_changes_meaning", msg, case.clone(), None);
        }
        return;
    }
    if let Some(k) = case["many_rules"].as_u64() {
        rep.evaluations += 1;
        if let Err(msg) = check_many_rules(k as usize, case["variant"].as_u64().unwrap_or(0)) {
            rep.violation("normalization_changes_meaning", msg, case.clone(), None);
        }
        return;
    }
    let text = case_expr(case);
    let hol = case_hol(case);
    rep.evaluations += 1;
    let ast = match lib_parse(&text) {
        Ok(a) => a,
        Err(e) => {
            rep.violation("witness_rejected", format!("{text:?}: {e}"), case.clone(), None);
            return;
        }
    };
    let mut r = Rng::new(5, 0, 0);
    if let Err(msg) = check(&text, &ast, &hol, &mut r, 800) {
        let known = known::explained_by(&args.known, &ast);
        rep.violation("normalization_changes_meaning", format!("{text:?} [{}]: {msg}", hol.to_string()), case.clone(), known);
    }
}
