//! Worker-side report: counters, samples, violations; written as one JSON document.

use serde_json::{json, Map, Value};
use std::collections::{BTreeMap, BTreeSet};
use std::io::Write;

pub struct Args {
    pub monitor: String,
    pub seed: u64,
    pub worker: u64,
    pub of: u64,
    pub tier: String,
    pub out: Option<String>,
    pub known: Vec<String>,
    pub replay: Option<String>,
    pub scale: f64,
    pub extra: Vec<String>,
}

impl Args {
    pub fn thorough(&self) -> bool {
        self.tier == "thorough"
    }

    /// Number of cases for this worker given the total for the tier.
    pub fn cases(&self, quick_total: u64, thorough_total: u64) -> u64 {
        let total = if self.thorough() { thorough_total } else { quick_total };
        (((total as f64) * self.scale) as u64 / self.of.max(1)).max(1)
    }

    pub fn knows(&self, trigger: &str) -> bool {
        self.known.iter().any(|k| k == trigger)
    }
}

pub struct Report {
    pub counters: BTreeMap<String, u64>,
    pub maxima: BTreeMap<String, u64>,
    pub samples: Vec<Value>,
    pub violations: Vec<Value>,
    pub known_hits: Vec<Value>,
    pub distinct: BTreeSet<u64>,
    pub evaluations: u64,
    pub exhaustive: bool,
    pub require: BTreeMap<String, u64>,
    pub max_samples: usize,
    pub max_violations: usize,
    journal: Option<std::fs::File>,
}

impl Report {
    pub fn new(args: &Args) -> Self {
        let journal = args.out.as_ref().and_then(|o| {
            std::fs::OpenOptions::new()
                .create(true)
                .write(true)
                .truncate(true)
                .open(format!("{o}.journal"))
                .ok()
        });

        Report {
            counters: BTreeMap::new(),
            maxima: BTreeMap::new(),
            samples: Vec::new(),
            violations: Vec::new(),
            known_hits: Vec::new(),
            distinct: BTreeSet::new(),
            evaluations: 0,
            exhaustive: false,
            require: BTreeMap::new(),
            max_samples: 4,
            max_violations: 6,
            journal,
        }
    }

    pub fn count(&mut self, key: &str) {
        self.add(key, 1);
    }

    pub fn add(&mut self, key: &str, n: u64) {
        if let Some(c) = self.counters.get_mut(key) {
            *c += n;
        } else {
            self.counters.insert(key.to_string(), n);
        }
    }

    pub fn max(&mut self, key: &str, v: u64) {
        let e = self.maxima.entry(key.to_string()).or_insert(0);
        if v > *e {
            *e = v;
        }
    }

    pub fn get(&self, key: &str) -> u64 {
        self.counters.get(key).copied().unwrap_or(0)
    }

    /// A minimum for a merged counter; below it the run is inconclusive.
    pub fn require(&mut self, key: &str, min: u64) {
        self.require.insert(key.to_string(), min);
    }

    pub fn sample(&mut self, v: impl FnOnce() -> Value) {
        if self.samples.len() < self.max_samples {
            self.samples.push(v());
        }
    }

    pub fn nontrivial(&mut self, hash: u64) {
        self.distinct.insert(hash);
    }

    pub fn full(&self) -> bool {
        self.violations.len() >= self.max_violations
    }

    /// Record a violation. `known` names the listed finding whose trigger explains it.
    pub fn violation(&mut self, kind: &str, message: String, case: Value, known: Option<String>) {
        let v = json!({"kind": kind, "message": message, "case": case, "known": known});
        if known.is_some() {
            self.add(&format!("known_hits.{}", known.as_deref().unwrap()), 1);
            if self.known_hits.len() < 3 {
                self.known_hits.push(v);
            }
        } else if self.violations.len() < self.max_violations {
            self.violations.push(v);
        } else {
            self.count("violations_not_listed_individually");
        }
    }

    /// Journal the case in flight, so that an abort is attributed to it.
    pub fn begin(&mut self, desc: &str) {
        if let Some(f) = self.journal.as_mut() {
            use std::io::{Seek, SeekFrom};
            let _ = f.set_len(0);
            let _ = f.seek(SeekFrom::Start(0));
            let _ = f.write_all(desc.as_bytes());
        }
    }

    pub fn to_json(&self) -> Value {
        let mut counters = Map::new();
        for (k, v) in &self.counters {
            counters.insert(k.clone(), json!(v));
        }
        let mut maxima = Map::new();
        for (k, v) in &self.maxima {
            maxima.insert(k.clone(), json!(v));
        }
        let mut require = Map::new();
        for (k, v) in &self.require {
            require.insert(k.clone(), json!(v));
        }
        json!({
            "evaluations": self.evaluations,
            "distinct": self.distinct.iter().map(|h| format!("{h:016x}")).collect::<Vec<_>>(),
            "counters": counters,
            "maxima": maxima,
            "samples": self.samples,
            "violations": self.violations,
            "known_hits": self.known_hits,
            "exhaustive": self.exhaustive,
            "require": require,
        })
    }

    pub fn write(&mut self, args: &Args) {
        let text = serde_json::to_string(&self.to_json()).unwrap();
        match &args.out {
            Some(path) => {
                std::fs::write(path, text).expect("cannot write report");
                self.journal = None;
                let _ = std::fs::remove_file(format!("{path}.journal"));
            }
            None => println!("{text}"),
        }
    }
}

// -- panic capture

thread_local! {
    static LAST_PANIC: std::cell::RefCell<Option<String>> = const { std::cell::RefCell::new(None) };
}

pub fn install_quiet_panic_hook() {
    std::panic::set_hook(Box::new(|info| {
        let loc = info
            .location()
            .map(|l| format!("{}:{}", l.file(), l.line()))
            .unwrap_or_default();
        let msg = if let Some(s) = info.payload().downcast_ref::<&str>() {
            s.to_string()
        } else if let Some(s) = info.payload().downcast_ref::<String>() {
            s.clone()
        } else if info.payload().downcast_ref::<opening_hours::verif_hooks::BudgetExceeded>().is_some() {
            "step budget exceeded".to_string()
        } else {
            "non-string panic payload".to_string()
        };
        LAST_PANIC.with(|p| *p.borrow_mut() = Some(format!("{msg} @ {loc}")));
    }));
}

pub fn take_panic_message() -> String {
    LAST_PANIC
        .with(|p| p.borrow_mut().take())
        .unwrap_or_else(|| "panic (no message)".to_string())
}

/// Run `f`, turning a panic into `Err(message @ location)`.
pub fn guarded<T>(f: impl FnOnce() -> T) -> Result<T, String> {
    match std::panic::catch_unwind(std::panic::AssertUnwindSafe(f)) {
        Ok(v) => Ok(v),
        Err(_) => Err(take_panic_message()),
    }
}
