//! "Evaluates identically": compare two expressions through the library on a set of days.

use crate::gen::ctx::HolSpec;
use crate::gen::dates;
use crate::out::guarded;
use crate::rng::Rng;
use crate::stream::Oh;
use chrono::{Duration, NaiveDate};
use opening_hours::RuleKind;
use opening_hours_syntax::rules::OpeningHoursExpression;
use std::collections::BTreeSet;

/// (start minute, end minute, kind, comments split on ", " as a set)
pub type DaySig = Vec<(u16, u16, RuleKind, BTreeSet<String>)>;

pub fn day_signature(oh: &Oh, d: NaiveDate, with_comments: bool) -> DaySig {
    oh.schedule_at(d)
        .into_iter()
        .map(|tr| {
            let comments: BTreeSet<String> = if with_comments {
                tr.comments.iter().flat_map(|c| c.split(", ").map(|s| s.to_string()).collect::<Vec<_>>()).collect()
            } else {
                BTreeSet::new()
            };
            (tr.range.start.mins_from_midnight(), tr.range.end.mins_from_midnight(), tr.kind, comments)
        })
        .collect()
}

fn fmt_sig(s: &DaySig) -> String {
    s.iter()
        .map(|(a, b, k, c)| format!("{:02}:{:02}-{:02}:{:02} {k}{}", a / 60, a % 60, b / 60, b % 60, if c.is_empty() { String::new() } else { format!(" {c:?}") }))
        .collect::<Vec<_>>()
        .join(", ")
}

/// First day on which the two values evaluate differently (kinds, and comments if asked).
pub fn first_difference(a: &Oh, b: &Oh, days: &[NaiveDate], with_comments: bool) -> Result<Option<(NaiveDate, String)>, String> {
    for &d in days {
        let r = guarded(|| (day_signature(a, d, with_comments), day_signature(b, d, with_comments)));
        match r {
            Err(p) => return Err(format!("schedule_at({d}) panicked: {p}")),
            Ok((sa, sb)) => {
                if sa != sb {
                    return Ok(Some((d, format!("on {d}: [{}] vs [{}]", fmt_sig(&sa), fmt_sig(&sb)))));
                }
            }
        }
    }
    Ok(None)
}

/// Days for comparing two spellings / forms of an expression: boundaries derived from both,
/// month starts, random days, optionally a contiguous sweep.
pub fn comparison_days(exprs: &[&OpeningHoursExpression], hol: &HolSpec, r: &mut Rng, targeted: usize, random: usize, sweep: i64) -> Vec<NaiveDate> {
    let ctx = hol.build();
    let mut days = Vec::new();
    let mut ys = Vec::new();
    for e in exprs {
        days.extend(dates::interesting_days(e, ctx.get_public(), ctx.get_school(), r, targeted));
        ys.extend(dates::years_of(e));
    }
    ys.sort();
    ys.dedup();
    let base_year = if ys.is_empty() || r.chance(50) { *r.pick(&[2020, 2023, 2024, 2025]) } else { *r.pick(&ys) };
    for m in 1..=12 {
        days.push(dates::ymd(base_year, m, 1));
        days.push(dates::ymd(base_year, m, 1).pred_opt().unwrap());
    }
    for _ in 0..random {
        days.push(dates::random_day(r, &ys));
    }
    if sweep > 0 {
        let start = dates::random_day(r, &ys);
        for k in 0..sweep {
            days.push(start + Duration::days(k));
        }
    }
    // 1900-01-01 is left out: what spills over from 1899-12-31 (a day outside the supported range
    // that year-less selectors still match) is not settled by any source (DESIGN.md section 5)
    days.retain(|d| dates::in_range(*d) && *d != dates::min_day());
    days.sort();
    days.dedup();
    days
}
