//! Harness AST -> concrete syntax, independent of the library's `Display`.
//!
//! Only spellings derivable from productions of `grammar.pest` are produced. A variant stream
//! chooses among the documented relaxations (optional spaces, single-digit hours and days, `off`
//! for `closed`, `:` / space after wide-range selectors, `+` forms, `Jan 5-10`, ...). With
//! `Variants::plain()` the simplest spelling is used (messages, replays, shrinking).

use crate::rng::Rng;
use chrono::Duration;
use opening_hours_syntax::rules::day::{
    Date, DateOffset, DaySelector, HolidayKind, Month, MonthdayRange, WeekDayOffset, WeekDayRange,
    WeekRange, Weekday, YearRange,
};
use opening_hours_syntax::rules::time::{Time, TimeEvent, TimeSelector, TimeSpan, VariableTime};
use opening_hours_syntax::rules::{OpeningHoursExpression, RuleKind, RuleOperator, RuleSequence};
use opening_hours_syntax::ExtendedTime;
use std::collections::BTreeMap;

pub struct Variants {
    rng: Option<Rng>,
    /// which variant knobs were exercised (for the coverage table)
    pub used: BTreeMap<&'static str, u64>,
}

impl Variants {
    pub fn plain() -> Self {
        Variants { rng: None, used: BTreeMap::new() }
    }

    pub fn random(rng: Rng) -> Self {
        Variants { rng: Some(rng), used: BTreeMap::new() }
    }

    /// Choose variant 0..n (0 = plain spelling).
    fn pick(&mut self, knob: &'static str, n: u64) -> u64 {
        let v = match self.rng.as_mut() {
            None => 0,
            Some(r) => {
                if r.chance(45) {
                    0
                } else {
                    r.below(n)
                }
            }
        };
        if v != 0 {
            *self.used.entry(knob).or_insert(0) += 1;
        }
        v
    }
}

impl Variants {
    /// A number below n from the variant stream (0 in the plain spelling).
    fn rnd(&mut self, n: u64) -> u64 {
        match self.rng.as_mut() {
            None => 0,
            Some(r) => r.below(n.max(1)),
        }
    }
}

pub fn wd(w: Weekday) -> &'static str {
    match w {
        Weekday::Mon => "Mo",
        Weekday::Tue => "Tu",
        Weekday::Wed => "We",
        Weekday::Thu => "Th",
        Weekday::Fri => "Fr",
        Weekday::Sat => "Sa",
        Weekday::Sun => "Su",
    }
}

pub fn mon(m: Month) -> &'static str {
    ["Jan", "Feb", "Mar", "Apr", "May", "Jun", "Jul", "Aug", "Sep", "Oct", "Nov", "Dec"][m as usize - 1]
}

fn ev(e: TimeEvent) -> &'static str {
    match e {
        TimeEvent::Dawn => "dawn",
        TimeEvent::Sunrise => "sunrise",
        TimeEvent::Sunset => "sunset",
        TimeEvent::Dusk => "dusk",
    }
}

fn clock(v: &mut Variants, t: ExtendedTime, allow_single_digit: bool) -> String {
    // single-digit hours are a documented relaxation
    if allow_single_digit && t.hour() < 10 && v.pick("single_digit_hour", 2) == 1 {
        format!("{}:{:02}", t.hour(), t.minute())
    } else {
        format!("{:02}:{:02}", t.hour(), t.minute())
    }
}

fn variable(v: &mut Variants, t: &VariableTime) -> String {
    if t.offset == 0 {
        if v.pick("event_zero_offset_explicit", 4) == 1 {
            return format!("({}+00:00)", ev(t.event));
        }
        return ev(t.event).to_string();
    }
    let a = t.offset.unsigned_abs();
    let sign = if t.offset < 0 { '-' } else { '+' };
    format!("({}{}{:02}:{:02})", ev(t.event), sign, a / 60, a % 60)
}

fn time(v: &mut Variants, t: &Time) -> String {
    match t {
        Time::Fixed(x) => clock(v, *x, true),
        Time::Variable(x) => variable(v, x),
    }
}

fn timespan(v: &mut Variants, s: &TimeSpan) -> String {
    let start = time(v, &s.range.start);
    if let Some(rep) = s.repeats {
        // grammar: time sp? "-" extended_time sp? "/" sp? (hour_minutes | minute)
        let end = time(v, &s.range.end);
        let sp1 = if v.pick("space_before_dash", 3) == 1 { " " } else { "" };
        let sp2 = if v.pick("space_around_slash", 3) == 1 { " " } else { "" };
        let mins = rep.num_minutes();
        let r = if rep == Duration::hours(24) {
            "24:00".to_string()
        } else if mins < 60 && v.pick("repeat_as_minutes", 2) == 0 {
            format!("{:02}", mins)
        } else {
            format!("{:02}:{:02}", mins / 60, mins % 60)
        };
        return format!("{start}{sp1}-{end}{sp2}/{sp2}{r}");
    }
    if s.open_end && s.range.end == Time::Fixed(ExtendedTime::MIDNIGHT_24) && v.pick("open_end_explicit_24", 3) != 1 {
        return format!("{start}+");
    }
    let end = time(v, &s.range.end);
    let dash = match v.pick("spaces_around_time_dash", 4) {
        1 => " - ",
        2 => " -",
        3 => "- ",
        _ => "-",
    };
    format!("{start}{dash}{end}{}", if s.open_end { "+" } else { "" })
}

pub fn time_selector(v: &mut Variants, ts: &TimeSelector) -> String {
    ts.time.iter().map(|s| timespan(v, s)).collect::<Vec<_>>().join(",")
}

fn days_offset(v: &mut Variants, n: i64) -> String {
    if n == 0 {
        return String::new();
    }
    let plural = if n.abs() > 1 || v.pick("day_plural_on_one", 4) == 1 { "s" } else { "" };
    let plural = if n.abs() > 1 && v.pick("days_singular", 4) == 1 { "" } else { plural };
    let zeros = if v.pick("offset_leading_zero", 5) == 1 { "0" } else { "" };
    format!(" {}{}{} day{}", if n > 0 { '+' } else { '-' }, zeros, n.abs(), plural)
}

fn year_range(v: &mut Variants, y: &YearRange, force_range: bool) -> String {
    let (a, b) = (**y.range.start(), **y.range.end());
    if y.step == 1 && a == b && !force_range {
        return format!("{a}");
    }
    if y.step == 1 && b == 9999 && a != 9999 && v.pick("year_plus", 2) == 1 {
        return format!("{a}+");
    }
    let mut s = format!("{a}-{b}");
    if y.step != 1 {
        s += &format!("/{}", y.step);
    }
    s
}

fn week_range(v: &mut Variants, w: &WeekRange) -> String {
    let num = |v: &mut Variants, n: u8| if n < 10 && v.pick("week_single_digit", 2) == 1 { format!("{n}") } else { format!("{n:02}") };
    let (a, b) = (**w.range.start(), **w.range.end());
    if a == b && w.step == 1 {
        return num(v, a);
    }
    let mut s = format!("{}-{}", num(v, a), num(v, b));
    if w.step != 1 {
        s += &format!("/{}", w.step);
    }
    s
}

fn date(v: &mut Variants, d: &Date) -> String {
    match d {
        Date::Easter { year } => match year {
            Some(y) => {
                if v.pick("year_easter_no_space", 2) == 1 {
                    format!("{y}easter")
                } else {
                    format!("{y} easter")
                }
            }
            None => "easter".to_string(),
        },
        Date::Fixed { year, month, day } => {
            let y = match year {
                Some(y) => {
                    if v.pick("year_date_no_space", 3) == 1 {
                        format!("{y}")
                    } else {
                        format!("{y} ")
                    }
                }
                None => String::new(),
            };
            let dn = daynum(v, *day);
            let sp = if v.pick("month_day_no_space", 3) == 1 { "" } else { " " };
            format!("{y}{}{sp}{dn}", mon(*month))
        }
    }
}

fn daynum(v: &mut Variants, day: u8) -> String {
    if day < 10 && v.pick("day_leading_zero", 3) == 1 {
        format!("{day:02}")
    } else {
        format!("{day}")
    }
}

fn date_offset(v: &mut Variants, o: &DateOffset) -> String {
    let w = match o.wday_offset {
        WeekDayOffset::None => String::new(),
        WeekDayOffset::Next(x) => format!("+{}", wd(x)),
        WeekDayOffset::Prev(x) => format!("-{}", wd(x)),
    };
    format!("{w}{}", days_offset(v, o.day_offset))
}

fn monthday(v: &mut Variants, m: &MonthdayRange) -> String {
    match m {
        MonthdayRange::Month { range, year } => {
            let y = year.map(|y| y.to_string()).unwrap_or_default();
            if range.start() == range.end() && v.pick("month_range_explicit", 6) != 1 {
                format!("{y}{}", mon(*range.start()))
            } else {
                format!("{y}{}-{}", mon(*range.start()), mon(*range.end()))
            }
        }
        MonthdayRange::Date { start, end } => {
            let s = format!("{}{}", date(v, &start.0), date_offset(v, &start.1));
            if start == end && (start.1 != DateOffset::default() || v.pick("single_date_as_range", 6) != 1) {
                return s;
            }
            // "+" form
            let plus_end = if start.0.has_year() { Date::ymd(31, Month::December, 9999) } else { Date::md(31, Month::December) };
            if end.0 == plus_end && end.1 == DateOffset::default() && v.pick("date_plus", 2) == 1 {
                return format!("{s}+");
            }
            let dash = match v.pick("spaces_around_date_dash", 4) {
                1 => " - ",
                2 => " -",
                3 => "- ",
                _ => "-",
            };
            // short form with a bare day number
            if let (Date::Fixed { year: y1, month: m1, day: d1 }, Date::Fixed { year: y2, month: m2, day: d2 }) = (start.0, end.0) {
                let same_month = m1 == m2 && y1 == y2 && d2 >= d1;
                let next_month = m2 == m1.next() && d2 < d1 && (if m2 == Month::January { y2 == y1.map(|y| y + 1) } else { y2 == y1 });
                if (same_month || next_month) && v.pick("date_to_daynum", 2) == 1 {
                    return format!("{s}{dash}{}{}", daynum(v, d2), date_offset(v, &end.1));
                }
            }
            format!("{s}{dash}{}{}", date(v, &end.0), date_offset(v, &end.1))
        }
    }
}

fn weekday_entry(v: &mut Variants, w: &WeekDayRange) -> String {
    match w {
        WeekDayRange::Holiday { kind, offset } => {
            let k = match kind {
                HolidayKind::Public => "PH",
                HolidayKind::School => "SH",
            };
            format!("{k}{}", days_offset(v, *offset))
        }
        WeekDayRange::Fixed { range, offset, nth_from_start, nth_from_end } => {
            let all = nth_from_start.iter().all(|x| *x) && nth_from_end.iter().all(|x| *x);
            if all && *offset == 0 {
                if range.start() == range.end() && v.pick("weekday_range_explicit", 8) != 1 {
                    return wd(*range.start()).to_string();
                }
                return format!("{}-{}", wd(*range.start()), wd(*range.end()));
            }
            // nth list: positive entries (runs may be written as ranges), then negative ones
            let mut entries: Vec<String> = Vec::new();
            let mut i = 0;
            while i < 5 {
                if nth_from_start[i] {
                    let mut j = i;
                    while j + 1 < 5 && nth_from_start[j + 1] {
                        j += 1;
                    }
                    if j > i && v.pick("nth_positive_range", 2) == 1 {
                        entries.push(format!("{}-{}", i + 1, j + 1));
                        i = j + 1;
                        continue;
                    }
                    entries.push(format!("{}", i + 1));
                }
                i += 1;
            }
            for (k, x) in nth_from_end.iter().enumerate() {
                if *x {
                    entries.push(format!("-{}", k + 1));
                }
            }
            // the positions are a set: entries may be repeated, overlap, and come in any order
            if v.pick("nth_redundant_entries", 3) != 0 {
                for _ in 0..1 + v.rnd(3) {
                    let selected: Vec<String> = (0..5).filter(|k| nth_from_start[*k]).map(|k| format!("{}", k + 1)).chain((0..5).filter(|k| nth_from_end[*k]).map(|k| format!("-{}", k + 1))).collect();
                    if selected.is_empty() {
                        break;
                    }
                    let extra = selected[v.rnd(selected.len() as u64) as usize].clone();
                    let at = v.rnd(entries.len() as u64 + 1) as usize;
                    entries.insert(at, extra);
                }
            }
            if entries.len() > 1 && v.pick("nth_entries_reordered", 3) != 0 {
                let k = v.rnd(entries.len() as u64) as usize;
                entries.rotate_left(k);
            }
            format!("{}[{}]{}", wd(*range.start()), entries.join(","), days_offset(v, *offset))
        }
    }
}

fn weekday_selector(v: &mut Variants, ws: &[WeekDayRange]) -> String {
    ws.iter().map(|w| weekday_entry(v, w)).collect::<Vec<_>>().join(",")
}

fn comment(c: &str) -> String {
    format!("\"{c}\"")
}

pub fn rule(v: &mut Variants, r: &RuleSequence) -> String {
    let ds: &DaySelector = &r.day_selector;
    let wide_empty = ds.year.is_empty() && ds.monthday.is_empty() && ds.week.is_empty();
    let ts_default = r.time_selector == TimeSelector::default();
    let mut comments: Vec<&str> = r.comments.iter().map(|c| &**c).collect();

    let mut s = String::new();
    let mut prefix_comment = false;
    if ds.is_empty() && ts_default {
        // no selector at all: "24/7", "00:00-24:00", or nothing before a modifier
        let has_modifier_text = r.kind != RuleKind::Open || !comments.is_empty();
        if comments.len() == 2 {
            s += &comment(comments.remove(0));
            s += ":";
            prefix_comment = true;
        } else {
            match v.pick("constant_rule_spelling", 4) {
                1 => s += "00:00-24:00",
                2 if has_modifier_text => {}
                _ => s += "24/7",
            }
        }
    } else {
        if wide_empty {
            let use_prefix = comments.len() == 2 || (comments.len() == 1 && v.pick("comment_as_prefix", 4) == 1);
            if use_prefix {
                let idx = if comments.len() == 2 && v.pick("prefix_second_comment", 2) == 1 { 1 } else { 0 };
                s += &comment(comments.remove(idx));
                s += ":";
                prefix_comment = true;
            }
        } else {
            // year selector: a single plain year directly followed by a month would be read as a
            // dated month, so it is written as a range in that case
            let first_md_undated = match ds.monthday.first() {
                Some(MonthdayRange::Month { year: None, .. }) => true,
                Some(MonthdayRange::Date { start: (d, _), .. }) => !d.has_year(),
                _ => false,
            };
            let n = ds.year.len();
            for (i, y) in ds.year.iter().enumerate() {
                if i > 0 {
                    s += ",";
                }
                let force = i + 1 == n && first_md_undated && y.step == 1 && y.range.start() == y.range.end();
                let mut ys = year_range(v, y, force);
                if i + 1 == n && !ds.monthday.is_empty() && ys.ends_with('+') {
                    // "2020+Jan" is fine for the grammar but keep the explicit range before a month
                    ys = format!("{}-9999", **y.range.start());
                }
                s += &ys;
            }
            s += &ds.monthday.iter().map(|m| monthday(v, m)).collect::<Vec<_>>().join(",");
            if !ds.week.is_empty() {
                if !s.is_empty() {
                    s += match v.pick("separator_before_week", 4) {
                        1 => ":",
                        2 => ": ",
                        3 => "",
                        _ => " ",
                    };
                    if s.ends_with(|c: char| c.is_ascii_digit()) || s.ends_with('+') {
                        // keep a visible boundary after digits
                        if !s.ends_with(' ') && !s.ends_with(':') {
                            s += " ";
                        }
                    }
                }
                s += "week";
                if v.pick("week_no_space", 3) != 1 {
                    s += " ";
                }
                s += &ds.week.iter().map(|w| week_range(v, w)).collect::<Vec<_>>().join(",");
            }
        }
        let small_present = !ds.weekday.is_empty() || !ts_default;
        if !wide_empty && small_present {
            s += match v.pick("separator_after_wide", 3) {
                1 => ": ",
                2 => ":",
                _ => " ",
            };
        }
        s += &weekday_selector(v, &ds.weekday);
        if !ts_default {
            if !ds.weekday.is_empty() {
                s += " ";
            }
            s += &time_selector(v, &r.time_selector);
        }
    }
    let _ = prefix_comment;
    // modifier
    let kind_word = match r.kind {
        RuleKind::Open => {
            if v.pick("explicit_open", 3) == 1 { "open" } else { "" }
        }
        RuleKind::Closed => {
            if v.pick("off_for_closed", 2) == 1 { "off" } else { "closed" }
        }
        RuleKind::Unknown => "unknown",
    };
    let mut modifier = kind_word.to_string();
    if let Some(c) = comments.first() {
        if !modifier.is_empty() && v.pick("no_space_before_comment", 4) != 1 {
            modifier += " ";
        }
        modifier += &comment(c);
    }
    if !modifier.is_empty() {
        if !s.is_empty() {
            s += " ";
        }
        s += &modifier;
    }
    s
}

pub fn expr(v: &mut Variants, e: &OpeningHoursExpression) -> String {
    let mut s = String::new();
    for (i, r) in e.rules.iter().enumerate() {
        if i > 0 {
            s += match r.operator {
                RuleOperator::Normal => match v.pick("normal_separator_spacing", 4) {
                    1 => ";",
                    2 => " ; ",
                    3 => " ;",
                    _ => "; ",
                },
                RuleOperator::Additional => ", ",
                RuleOperator::Fallback => match v.pick("fallback_separator_spacing", 2) {
                    1 => "|| ",
                    _ => " || ",
                },
            };
        }
        s += &rule(v, r);
    }
    s
}

pub fn plain(e: &OpeningHoursExpression) -> String {
    expr(&mut Variants::plain(), e)
}
