#![no_main]
//! libFuzzer + ASan entry of the C04 (totality) monitor: the byte string is the expression.
use libfuzzer_sys::fuzz_target;
use ohv::monitors::c04;
use ohv::rng::Rng;

fuzz_target!(|data: &[u8]| {
    let Ok(text) = std::str::from_utf8(data) else { return };
    static INIT: std::sync::Once = std::sync::Once::new();
    INIT.call_once(ohv::out::install_quiet_panic_hook);
    let mut r = Rng::new(ohv::rng::hash64(text), 0, 0);
    // unbounded calls are left to the native monitor: a fuzz iteration must stay short
    if let Err(msg) = c04::check_string_with(text, &mut r, None, 0) {
        eprintln!("C04 VIOLATION: {msg}");
        std::process::abort();
    }
});
