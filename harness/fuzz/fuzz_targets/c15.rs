#![no_main]
//! libFuzzer + ASan entry of the C15 (CompactCalendar) monitor: bytes -> insertion history.
use chrono::NaiveDate;
use libfuzzer_sys::fuzz_target;
use ohv::monitors::c15;

fuzz_target!(|data: &[u8]| {
    // 4 bytes per date: year offset (i16 around 2000), month, day
    let mut hist = Vec::new();
    for ch in data.chunks_exact(4).take(64) {
        let y = 2000 + i16::from_le_bytes([ch[0], ch[1]]) as i32 / 8;
        let (m, d) = (1 + (ch[2] % 12) as u32, 1 + (ch[3] % 31) as u32);
        if let Some(x) = NaiveDate::from_ymd_opt(y, m, d) {
            hist.push(x);
        }
    }
    if let Err(msg) = c15::check_history_pub(&hist) {
        eprintln!("C15 VIOLATION: {msg}");
        std::process::abort();
    }
});
